"""C20 — channel log and scrapli log file record the session faithfully.

proof: coq/proofs/LogHandler_Proofs.v (file_log_complete: every record sequence followed by close, both handlers),
LogRepr_Proofs.v (repr of bytes is invertible: the coalesced line determines the payload), LogFormat_Proofs.v (format_total),
ChanLog_Proofs.v (channel_log_exact, whole_session_exact, late_open_loses), ChanReopen_Proofs.v (one channel object opened again after
close: reopen_append_exact, reopen_write_last, reopen_nothing_silent), LogMode_Proofs.v (the mode argument in every casing); props/C20.v.
tie: Gen_Log.v regenerated from the source (format strings, literals, prefixes, hot-path templates, statement order
of read() and of Driver.open / AsyncDriver.open, call sites of transport.read) + correspondence of model/LogHandler.v,
LogFormat.v, ChanLog.v against the real handlers / formatter / channels / drivers on the same generated record sequences,
read sequences, whole sessions and commandeered sessions (c20_driver.py), re-open histories on one driver object (c20_reopen.py),
mode spellings x previous file content (log-mode), several handler instances in one process, whole logged sessions with hostile
input text (%, %s, %d, %%, %(name)s, braces, backslashes) in every operation kind, logging.raiseExceptions on and off (c20_inputs.py)."""
import ast
import asyncio
import io
import json
import logging
import os
import re
import shutil
import sys
import weakref

from . import c20_driver, c20_inputs, c20_reopen, common
from .common import coq_bool, coq_list

LEVEL = "proof"
SOURCES = ["scrapli/logging.py", "scrapli/channel/base_channel.py", "scrapli/channel/sync_channel.py",
           "scrapli/channel/async_channel.py", "scrapli/driver/base/sync_driver.py", "scrapli/driver/base/async_driver.py"]
CREATED = 1700000000.0
MSECS = 123.0
TS_RE = re.compile(r"\d{4}-\d{2}-\d{2} \d{2}:\d{2}:\d{2},\d{3}")
TMASK = "T" * 23
READ_PREFIX = "read: "


class Starved(BaseException):
    """the scripted transport has nothing more to deliver (a real one would block)"""


# ------------------------------------------------------------------------------------------------
# Coq terms
# ------------------------------------------------------------------------------------------------
BIG_TERM = 512
_RUN = re.compile(r"(.{1,12}?)\1{23,}", re.S)


def _lit(codes):
    return "[" + ";".join(str(c) for c in codes) + "]" if codes else "(@nil N)"


def _compact(s):
    """a long string / byte string as a Coq term of type list N WITHOUT loss: literal pieces and `rp n block` (block repeated n
    times, decoded inside Coq by N.iter) for its periodic stretches.  A 256 KiB payload written out as a list literal does
    not get through coqc (seconds per 16 KiB, stack overflow from 64 KiB on); the big payloads of the size families are a tag
    followed by a periodic fill, so the term of the case AND of the file observed for it stay a few hundred characters."""
    parts, pos = [], 0
    for m in _RUN.finditer(s):
        if m.start() > pos:
            parts.append(_lit([ord(c) for c in s[pos:m.start()]]))
        blk = m.group(1)
        parts.append("rp %d %s" % (len(m.group(0)) // len(blk), _lit([ord(c) for c in blk])))
        pos = m.end()
    if pos < len(s):
        parts.append(_lit([ord(c) for c in s[pos:]]))
    return "(" + " ++ ".join(parts) + ")" if parts else "(@nil N)"


def cps(s):
    if len(s) >= BIG_TERM:
        return _compact(s)
    return "[" + ";".join(str(ord(c)) for c in s) + "]" if s else "(@nil N)"


coq_bytes = common.coq_bytes


def cbytes(b):
    """bytes argument of a log record (log-seq / session / log-mode terms, whose headers define rp)"""
    return _compact(b.decode("latin-1")) if len(b) >= BIG_TERM else common.coq_bytes(b)


def copt(s):
    return "None" if s is None else "(Some %s)" % cps(s)


def rec_term(rd, asctime):
    args = []
    for k, v in rd["args"]:
        args.append("ABytes %s" % cbytes(bytes.fromhex(v)) if k == "b" else "AStr %s" % cps(v))      # k: "s" str, "o" text of a non-str object (see _Capture)
    ex = rd["extra"]
    module = os.path.splitext(os.path.basename(rd["path"]))[0]
    return "(mkR %s %s (mkM %s %s (mkX %s %s %s) %s %s %d))" % (
        cps(rd["msg"]), coq_list(args), cps(asctime), cps(logging.getLevelName(rd["level"])),
        copt(ex.get("host")), copt(ex.get("port")), copt(ex.get("uid")), cps(module), cps(rd["func"]), rd["lineno"])


RP_DEF = "Definition rp (n : N) (b : list N) : list N := N.iter n (fun acc => b ++ acc) []."

LOG_HEADER = """From Verif Require Import Bytes LogFormat LogHandler.
(* rp n b : b repeated n times — the lossless run-length spelling of long periodic strings (see _compact in the harness) *)
Definition rp (n : N) (b : list N) : list N := N.iter n (fun acc => b ++ acc) [].
Definition chk (c : bool * bool * bool * str * list record * str * nat * nat) : bool :=
  let '(buffered, append, caller, existing, recs, f, e, x) := c in
  let st := run_handler buffered (fixed (mkFC caller true)) existing append recs in
  beq (file st) f && Nat.eqb (errors st) e && Nat.eqb (escaped st) x.
"""

CHAN_HEADER = """From Verif Require Import Bytes ChanLog.
Definition Rd := EvRead.
Definition Op := EvOpen.
Definition chk (c : sink_kind * bytes * list sess_ev * option bytes) : bool :=
  let '(k, existing, evs, obs) := c in
  match sess_log (fun b => b) k existing None evs, obs with
  | None, None => true
  | Some a, Some b => beq a b
  | _, _ => false
  end.
"""


REOPEN_HEADER = """From Verif Require Import Bytes ChanLog ChanReopen.
Definition Op := HEvOpen.
Definition Rd := HEvRead.
Definition Cl := HEvClose.
(* the history of one channel object, session by session (channel.open() / read / channel.close() as OBSERVED), with what the
   destination holds after each close; how many reads were made by an operation that raised *)
Fixpoint chk_sessions (k : sink_kind) (keeps_open : bool) (st : rstate) (segs : list (list hist_ev * bytes)) : option rstate :=
  match segs with
  | [] => Some st
  | (evs, d) :: rest =>
      let st' := reopen_run false k keeps_open st evs in
      if beq (dest st') d then chk_sessions k keeps_open st' rest else None
  end.
Definition chk (c : sink_kind * bool * bytes * list (list hist_ev * bytes) * nat) : bool :=
  let '(k, keeps_open, existing, segs, r) := c in
  match chk_sessions k keeps_open (reopen_init existing) segs with
  | Some st => Nat.eqb (raised st) r
  | None => false
  end.
"""


def reopen_case_term(case, obs):
    """per session: the observed events and the snapshot taken after its close"""
    k = {"none": "SNone", "path": "(SFile %s)" % coq_bool(case["append"]), "true": "(SFile %s)" % coq_bool(case["append"]),
         "bytesio": "SBytesIO", "bytesio-open": "SBytesIO"}[case["sink"]]
    existing = case["existing"] if (case["sink"].startswith("bytesio") or case["has_existing"]) else ""
    if case["sink"] == "none":
        existing = ""
    segs, loud = [], 0
    for j, so in enumerate(obs["sessions"]):
        evs = []
        for kind, sj, c, _ in obs["events"]:
            if sj != j:
                continue
            if kind == "open":
                evs.append("Op")
            elif kind == "r":
                evs.append("Rd %s" % coq_bytes(bytes.fromhex(c)))
            elif kind == "close":
                evs.append("Cl")
        loud += sum(1 for _, l in so["served"] if l)
        snap = "" if case["sink"] == "none" else (so["snapshot"] if so["snapshot"] is not None else "")
        segs.append("(%s, %s)" % ("[%s]" % "; ".join(evs) if evs else "(@nil hist_ev)", coq_bytes(bytes.fromhex(snap))))
    return "(%s, %s, %s, [%s], %d%%nat)" % (k, coq_bool(case["sink"] == "bytesio-open"), coq_bytes(bytes.fromhex(existing)), "; ".join(segs), loud)


CMD_HEADER = """From Verif Require Import Bytes ChanLog Commandeer.
Definition RA := CRead WA.
Definition RB := CRead WB.
Definition Tk := CTakeover.
(* destination 0: the one A is configured with (kind k0, previous content e0); destination 1: B's own when it is another
   one (previous content e1, never opened on the reference); the events from A.open() on; what 0 and 1 hold after both closes *)
Definition chk (c : sink_kind * bytes * bytes * list cmd_ev * bytes * bytes) : bool :=
  let '(k0, e0, e1, evs, o0, o1) := c in
  let s0 := match open_sink k0 e0 with Some b => b | None => [] end in
  let st := cmd_run (after_open (match open_sink k0 e0 with Some _ => Some 0%nat | None => None end)
                                (fun x => if Nat.eqb x 0 then s0 else e1)) evs in
  beq (cont st 0%nat) o0 && beq (cont st 1%nat) o1.
"""


def cmd_case_term(case, obs):
    """the commandeer model is fed the session as it was observed: the reads tagged with the object they were made through,
    the commandeering where it began; it answers with the content of A's destination and of B's own (if another one)"""
    ka = case["sink_a"]
    k0 = {"none": "SNone", "path": "(SFile %s)" % coq_bool(case["append_a"]), "true": "(SFile %s)" % coq_bool(case["append_a"]), "bytesio": "SBytesIO"}[ka]
    other = case["sink_b"] if case["sink_b"] not in ("none", ka) else None
    evs = []
    for k, who, c, _ in obs["events"]:
        if k == "r":
            evs.append("R%s %s" % (who, coq_bytes(bytes.fromhex(c))))
        elif k == "cmd-begin":
            evs.append("Tk")

    def held(dest):
        v = obs["sinks"].get(dest) if dest else None
        return coq_bytes(bytes.fromhex(v)) if v else "(@nil N)"
    return "(%s, %s, %s, %s, %s, %s)" % (k0, coq_bytes(bytes.fromhex(case["existing"].get(ka, ""))),
                                         coq_bytes(bytes.fromhex(case["existing"].get(other, ""))) if other else "(@nil N)",
                                         "[%s]" % "; ".join(evs) if evs else "(@nil cmd_ev)", held(ka if ka != "none" else None), held(other))


def log_case_term(case, obs, asctime):
    return "(%s, %s, %s, %s, %s, %s, %d%%nat, %d%%nat)" % (
        coq_bool(case["buffered"]), coq_bool(case["append"]), coq_bool(case["caller"]),
        cps(case["existing"] or ""), coq_list([rec_term(r, asctime) for r in case["recs"]]) if case["recs"] else "(@nil record)",
        cps(obs["file"]), obs["errors"], len(obs["escaped"]))


def chan_case_term(case, obs):
    k = {"none": "SNone", "path": "(SFile %s)" % coq_bool(case["append"]), "true": "(SFile %s)" % coq_bool(case["append"]),
         "bytesio": "SBytesIO"}[case["sink"]]
    # the channel-level events of the session in the order they happened: Op = BaseChannel.open(), Rd c = a transport read.
    # chan-log / session suites open the channel themselves before the first read; the driver suite OBSERVES when
    # Driver.open / AsyncDriver.open did it.
    if "events" in case:
        evs = ["Op" if k == "open" else "Rd %s" % coq_bytes(bytes.fromhex(c)) for k, c in case["events"] if k in ("open", "r")]
    else:
        evs = ["Op"] + ["Rd %s" % coq_bytes(bytes.fromhex(c)) for c in case["chunks"]]
    return "(%s, %s, %s, %s)" % (k, coq_bytes(bytes.fromhex(case["existing"])), "[%s]" % "; ".join(evs),
                                 "None" if obs["sink"] is None else "(Some %s)" % coq_bytes(bytes.fromhex(obs["sink"])))


# ------------------------------------------------------------------------------------------------
# suite log-seq : record sequences through the real handlers
# ------------------------------------------------------------------------------------------------
def _asctime():
    r = logging.LogRecord("x", 20, "p.py", 1, "m", (), None)
    r.created, r.msecs = CREATED, MSECS
    return logging.Formatter().formatTime(r)


def _args(rd):
    return tuple(bytes.fromhex(v) if k == "b" else v for k, v in rd["args"])


class _Quiet:
    """swap sys.stderr (logging.Handler.handleError prints there) and restore the scrapli logger afterwards"""

    def __enter__(self):
        import scrapli.logging as sl
        self.lg = sl.logger
        self.saved = (list(self.lg.handlers), self.lg.level, self.lg.propagate, self.lg.disabled)
        self.err = io.StringIO()
        self.old = sys.stderr
        sys.stderr = self.err
        self.raise_exc = logging.raiseExceptions
        logging.raiseExceptions = True
        return self

    def new_handlers(self):
        return [h for h in self.lg.handlers if h not in self.saved[0]]

    def __exit__(self, *a):
        sys.stderr = self.old
        logging.raiseExceptions = self.raise_exc
        for h in self.new_handlers():
            self.lg.removeHandler(h)
            try:
                h.close()
            except Exception:  # noqa
                pass
        self.lg.setLevel(self.saved[1])
        self.lg.propagate = self.saved[2]
        self.lg.disabled = self.saved[3]
        return False

    def errors(self):
        return self.err.getvalue().count("--- Logging error ---")


_counter = [0]


def _tmp(rep_workdir, name):
    d = os.path.join(rep_workdir, "tmp")
    os.makedirs(d, exist_ok=True)
    _counter[0] += 1
    return os.path.join(d, "%s_%d" % (name, _counter[0]))


def run_log_impl(case, workdir):
    import scrapli.logging as sl
    path = _tmp(workdir, "log") + ".log"
    if os.path.exists(path):
        os.remove(path)
    if case["existing"] is not None:
        with open(path, "w", encoding="utf-8") as f:
            f.write(case["existing"])
    escaped = []
    setup_exc = None
    setup_scrapli = None
    left_handlers = 0
    with _Quiet() as q:
        try:
            sl.enable_basic_logging(file=path, level="debug", caller_info=case["caller"], buffer_log=case["buffered"],
                                    mode=case.get("mode", "append" if case["append"] else "write"))
            (h,) = q.new_handlers()
        except Exception as e:  # noqa
            setup_exc = type(e).__name__
            setup_scrapli = any(c.__name__ == "ScrapliException" for c in type(e).__mro__)
            left_handlers = len(q.new_handlers())
            h = None
        if h is not None:
            for rd in case["recs"]:
                rec = q.lg.makeRecord("scrapli.channel", rd["level"], rd["path"], rd["lineno"], rd["msg"], _args(rd), None,
                                      rd["func"], dict(rd["extra"]) or None)
                rec.created, rec.msecs = CREATED, MSECS
                try:
                    q.lg.handle(rec)
                except Exception as e:  # noqa
                    escaped.append(type(e).__name__)
            try:
                if case["close"] == "shutdown":
                    logging.shutdown([weakref.ref(h)])
                else:
                    h.close()
            except Exception as e:  # noqa
                escaped.append("close:" + type(e).__name__)
        errors = q.errors()
        stderr_tail = q.err.getvalue()[-400:]
    try:
        content = open(path, "rb").read().decode("utf-8")
    except Exception as e:  # noqa
        content = "<unreadable: %s>" % type(e).__name__
    return {"file": content, "errors": errors, "escaped": escaped, "setup_exc": setup_exc, "stderr_tail": stderr_tail,
            "setup_scrapli": setup_scrapli, "left_handlers": left_handlers, "file_exists": os.path.exists(path)}


BIG_LITERAL = 2048


def expected_log_regex(case, asctime, big=None):
    """independent oracle: the file a faithful handler leaves for a sequence of well-formed records.
    Uses CPython's own % formatting and repr, not the model.  It demands what the property says — every message,
    in order, numbered consecutively, consecutive reads coalesced with the concatenated payload, previous content kept
    in append mode and dropped in write mode — and leaves the layout of the other columns (target, caller info, header
    row) open: a change of layout alone is reported through the model correspondence, not as a failing input.
    The target column of entry i is captured as group t<i>: oracle_log checks WHOSE target it is (own_targets).
    With a list as `big`: a message of BIG_LITERAL characters or more is spelled '(?P<m<i>>.{its length})' instead of as a
    literal and (i, message) is appended to the list — see match_log."""
    entries = expected_entries(case)
    out = re.escape(case["existing"] or "") if case["append"] else ""
    loose = r"[^\n]*?"
    for i, (rd, m) in enumerate(entries):
        if i == 0:
            out += r"(?:ID[^\n]*MESSAGE\n)?"
        cols = [re.escape("%-5d" % (i + 1)), re.escape(asctime), re.escape("%-8s" % logging.getLevelName(rd["level"])), r"(?P<t%d>%s)" % (i, loose)]
        if big is not None and len(m) >= BIG_LITERAL:
            big.append((i, m))
            msg = r"(?P<m%d>.{%d})" % (i, len(m))
        else:
            msg = re.escape(m)
        out += re.escape(" | ").join(cols) + re.escape(" | ") + (loose + re.escape(" | ") if case["caller"] else "") + msg + re.escape("\n")
    return out


def match_log(case, content, asctime):
    """re.fullmatch(expected_log_regex(case, asctime), content, re.S), without compiling messages of hundreds of KiB as
    regex literals when that can be avoided (the sre compiler costs ~1 us per character): the regex with '.{n}' in the place
    of each long message is a relaxation of the literal one, explored in the same order — no match there, no match of the
    literal regex; a match whose '.{n}' groups ARE the messages is the match of the literal regex.  Anything else (a match
    with another text in the place of a long message) is decided by the literal regex itself."""
    big = []
    rx = expected_log_regex(case, asctime, big)
    if big:
        m = re.fullmatch(rx, content, re.S)
        if m is None:
            return None
        if all(m.group("m%d" % i) == lit for i, lit in big):
            return m
        rx = expected_log_regex(case, asctime)
    return re.fullmatch(rx, content, re.S)


def expected_entries(case):
    """[(record the line stands for, message)]: one per record, or (buffering handler) one per maximal run of read
    messages — the run's first record, the concatenated payload"""
    msgs = []
    for rd in case["recs"]:
        a = _args(rd)
        msgs.append((rd, (rd["msg"] % a) if a else rd["msg"]))
    entries = []
    if case["buffered"]:
        run = []
        for rd, m in msgs:
            if m.startswith(READ_PREFIX):
                run.append((rd, m))
                continue
            if run:
                entries.append((run[0][0], "read : %r" % (b"".join(x[1][len(READ_PREFIX):].encode() for x in run),)))
                run = []
            entries.append((rd, m))
        if run:
            entries.append((run[0][0], "read : %r" % (b"".join(x[1][len(READ_PREFIX):].encode() for x in run),)))
    else:
        entries = msgs
    return entries


def own_targets(extra):
    """the connection a record belongs to, spelled from ITS OWN extras: '<uid>:' if it has a uid, then 'host:port' if it
    has a host (a port without a host may be shown or not).  Layout (padding, where a long target is cut) stays open."""
    uid = "%s:" % extra["uid"] if "uid" in extra else ""
    if "host" in extra:
        return [uid + "%s:%s" % (extra["host"], extra.get("port", ""))]
    return [uid] + ([uid + ":%s" % extra["port"], uid + "%s" % extra["port"]] if "port" in extra else [])


def target_is_own(shown, extra):
    shown = shown.rstrip(" ")
    for full in own_targets(extra):
        if shown == full.rstrip(" "):
            return True
        if shown.endswith("...") and len(shown) - 3 < len(full) and full.startswith(shown[:-3]) and len(shown) >= 6:
            return True     # cut: what is shown is the beginning of this record's own target
    return False


def target_mismatches(case, obs, asctime):
    """[(line number, target column as written, what its own record's extras spell)] — for the replay output"""
    m = match_log(case, obs["file"], asctime)
    if not m:
        return []
    return [(i + 1, m.group("t%d" % i).rstrip(" "), own_targets(rd["extra"])[0], rd["extra"])
            for i, (rd, _) in enumerate(expected_entries(case)) if not target_is_own(m.group("t%d" % i), rd["extra"])]


WHY_TARGET = "a line carries the target (uid:host:port) of another logger than the one that emitted its record"


def oracle_log(case, obs, asctime):
    """None if the property holds on this observation, else a description"""
    if obs["setup_exc"]:
        return "enable_basic_logging raised %s" % obs["setup_exc"]
    if obs["escaped"]:
        return "logging call raised %s" % obs["escaped"][0]
    if obs["errors"]:
        return "%d record(s) reported as '--- Logging error ---' on stderr instead of being written" % obs["errors"]
    m = match_log(case, obs["file"], asctime)
    if not m:
        return "file content is not the emitted sequence (reads coalesced)" if case["buffered"] else "file content is not the emitted sequence"
    # faithful attribution: the line of entry i (a record, or a run of reads: its first record) names that record's connection
    for i, (rd, _) in enumerate(expected_entries(case)):
        if not target_is_own(m.group("t%d" % i), rd["extra"]):
            return WHY_TARGET
    return None


# -- generators ------------------------------------------------------------------------------------
PAYLOAD_ALPHABET = [39, 34, 37, 92, 13, 10, 9, 27, 0, 32, 97, 98, 114, 35, 62, 58, 127, 128, 160, 173, 255, 0xc3, 0x28, 0xfe]
TEXT_ASCII = "abcR :%{}'\"\\#>-_/.01rs"
TEXT_WIDE = "\u00e9\u00ff\u0100\u20ac\u4e2d\U0001f600\u00ad\u00a0\x7f\x01"


def gen_payload(rng):
    n = rng.choice([0, 1, 1, 2, 3, 5, 8, 13, 40])
    kind = rng.random()
    if kind < 0.5:
        return bytes(rng.choice(PAYLOAD_ALPHABET) for _ in range(n))
    if kind < 0.8:
        return bytes(rng.randint(0, 255) for _ in range(n))
    return rng.choice([b"router#", b"show version\r\n", b"it's", b'say "hi"', b"'\"", b"100%", b"%r %s %%", b"\x1b[0m", b"\xff\xfe"])


def gen_text(rng, wide):
    n = rng.choice([0, 1, 2, 4, 9, 20])
    al = TEXT_ASCII + (TEXT_WIDE if wide else "")
    return "".join(rng.choice(al) for _ in range(n))


WIDE = [True]    # non-ASCII text only when the log file's (locale) encoding is UTF-8; set by run()


def gen_extra(rng):
    import scrapli.logging as sl
    r = rng.random()
    if r < 0.6:   # what get_instance_logger builds
        host = rng.choice(["", "h", "router1.example.net", "a" * 17, "a" * 18, "a" * 19, "a" * 22, "x" * 40, "2001:db8::1", "h\u00e9" if WIDE[0] else "h-e"])
        port = rng.choice([0, 22, 23, 830, 65535])
        uid = rng.choice(["", "", "u", "conn-2", "U" * 6, "U" * 26])
        return dict(sl.get_instance_logger("scrapli.channel", host=host, port=port, uid=uid).extra)
    ex = {}
    if rng.random() < 0.5:
        ex["host"] = rng.choice(["", "h", "a" * 24, "a" * 25, "a" * 26])
    if rng.random() < 0.5:
        ex["port"] = rng.choice(["", "22", "65535"])
    if rng.random() < 0.5:
        ex["uid"] = rng.choice(["", "u", "U" * 23, "U" * 24, "U" * 25])
    return ex


def gen_extra_pool(rng):
    """several loggers of ONE device: same host and port, told apart by their uid (the documented purpose of logging_uid),
    one of them possibly without uid; with an empty host: uid-only loggers and a plain 'scrapli.*' record without extras;
    sometimes one uid shared by several host:port pairs"""
    import scrapli.logging as sl
    if rng.random() < 0.2:     # the other way round: one uid used for several devices / ports
        uid = rng.choice(["u", "lab", ""])
        hps = rng.sample([("router1", 22), ("router1", 23), ("router2", 22), ("h", 830), ("", 22)], rng.choice([2, 3]))
        return [dict(sl.get_instance_logger("scrapli.channel", host=h, port=p, uid=uid).extra) for h, p in hps]
    host = rng.choice(["router1", "h", "", "a" * 17, "2001:db8::1"])
    port = rng.choice([22, 23, 830])
    uids = rng.sample(["", "primary", "standby", "u", "conn-2", "U" * 6], rng.choice([2, 2, 3, 4]))
    return [dict(sl.get_instance_logger("scrapli.channel", host=host, port=port, uid=u).extra) for u in uids]


def gen_record(rng, wide, extra, malformed=False, buffered=True):
    rd = {"level": rng.choice([10, 10, 10, 20, 20, 30, 40, 50]), "extra": extra,
          "path": rng.choice(["/x/scrapli/channel/sync_channel.py", "base_channel.py", "/p/" + "m" * 19 + ".py", "/p/" + "m" * 20 + ".py",
                              "/p/" + "m" * 21 + ".py", "noext"]),
          "func": rng.choice(["read", "write", "f" * 19, "f" * 20, "f" * 21, "_read_until_prompt_or_time", "<module>"]),
          "lineno": rng.choice([0, 1, 74, 99999, 100000, 1234567])}
    if malformed:
        k = rng.choice(["few", "many", "pct_d", "trail", "lazy_read_noarg", "bad_conv"] + (["surrogate"] if buffered else []))
        rd["kind"] = "malformed-" + k
        if k == "few":
            rd["msg"], rd["args"] = "read: %r and %r", [["b", gen_payload(rng).hex()]]
        elif k == "many":
            rd["msg"], rd["args"] = rng.choice(["read: %r", "write: %r", "info"]), [["b", b"x".hex()], ["s", "y"]]
        elif k == "pct_d":
            rd["msg"], rd["args"] = "count %d", [["s", "3"]]
        elif k == "trail":
            rd["msg"], rd["args"] = rng.choice(["read: %r 100%", "done 100%"]), [["b", b"ab".hex()]]
        elif k == "lazy_read_noarg":
            rd["msg"], rd["args"] = "%r read: %r", [["s", "q"]]
        elif k == "surrogate":
            rd["msg"], rd["args"] = "read: \udc80" + gen_text(rng, False), []
        else:
            rd["msg"], rd["args"] = "value %x", [["b", b"\x01".hex()]]
        return rd
    k = rng.choice(["lazy_read"] * 6 + ["eager_read"] * 2 + ["lazy_write"] * 2 + ["redacted", "info", "info", "tricky", "lazy_s", "lazy_read_str", "prefix_from_arg"])
    rd["kind"] = k
    if k == "lazy_read":
        rd["msg"], rd["args"] = "read: %r", [["b", gen_payload(rng).hex()]]
    elif k == "eager_read":
        rd["msg"], rd["args"] = rng.choice(["read: %r" % (gen_payload(rng),), "read: " + gen_text(rng, wide), "read: "]), []
    elif k == "lazy_write":
        rd["msg"], rd["args"] = "write: %r", [["s", rng.choice(["show version", "\n", "conf t\n", "it's", 'a"b', "100%", "\x1b\x7f", gen_text(rng, False)])]]
    elif k == "redacted":
        rd["msg"], rd["args"] = "write: REDACTED", []
    elif k == "info":
        rd["msg"], rd["args"] = rng.choice(["sending channel input: %s" % gen_text(rng, wide), "opening connection", "100% done %r {x}",
                                            "line one\nline two", gen_text(rng, wide)]), []
    elif k == "tricky":
        rd["msg"], rd["args"] = rng.choice(["read : b'x'", "read:", " read: x", "READ: x", "read:x", "reading", "write: read: y", "rea"]), []
    elif k == "prefix_from_arg":     # the message starts with "read: " although the template does not (and the other way round)
        rd["msg"], rd["args"] = rng.choice([("%s", [["s", "read: " + gen_text(rng, False)]]), ("%s%r", [["s", "read: "], ["b", gen_payload(rng).hex()]]),
                                            ("%sread: %r", [["s", ""], ["b", gen_payload(rng).hex()]]), ("read%s %r", [["s", ":"], ["b", gen_payload(rng).hex()]]),
                                            ("read: %%r %s", [["s", "x"]]), ("%sread: x", [["s", " "]])])
    elif k == "lazy_s":
        rd["msg"] = rng.choice(["got %s and %r at 100%%", "%s", "read: %s", "%sread: %r"])
        rd["args"] = [["s", gen_text(rng, wide)], ["b", gen_payload(rng).hex()]][:rd["msg"].replace("%%", "").count("%")]
    else:
        rd["msg"], rd["args"] = "read: %r", [["s", rng.choice(["x", "it's", "\u00e9\u00ff" if wide else "e", "\x80\xa0\xad", gen_text(rng, False)])]]
    return rd


def gen_log_case(rng, wide, malformed=False):
    n = rng.choice([0, 1, 2, 3, 4, 5, 6, 8, 12])
    buffered = rng.random() < 0.7
    same_extra = gen_extra(rng)
    pool = gen_extra_pool(rng) if rng.random() < 0.3 else None
    if pool and n < 2:
        n = rng.choice([2, 3, 5])
    recs = []
    while len(recs) < n:
        ex = rng.choice(pool) if pool else (same_extra if rng.random() < 0.7 else gen_extra(rng))
        if malformed and rng.random() < 0.35:
            recs.append(gen_record(rng, wide, ex, malformed=True, buffered=buffered))
        elif rng.random() < 0.45:   # a run of reads (what the buffering is about)
            for _ in range(rng.choice([2, 2, 3, 5])):
                r = gen_record(rng, wide, ex)
                r["kind"] = "lazy_read"
                r["msg"], r["args"] = "read: %r", [["b", gen_payload(rng).hex()]]
                recs.append(r)
        else:
            recs.append(gen_record(rng, wide, ex))
    append = rng.random() < 0.4
    return {"buffered": buffered, "append": append, "caller": rng.random() < 0.3,
            "existing": rng.choice([None, "", "old line\n", "no newline"]) if append else rng.choice([None, "stale\n"]),
            "close": rng.choice(["close", "shutdown"]), "recs": recs, "domain": not malformed, "shared_host_port": bool(pool)}


# -- size families: payloads around powers of two, 1 KiB .. 256 KiB -----------------------------------
SIZE_POWERS = list(range(10, 19))
SIZE_BLOCKS = [b"a", b"x", b"\xff", b"'", b"'\"", b"%", b"\\", b"\r\n", b"\x1b[0m", b"%r", b"a\x00", b"\xc3\x28", b"ab "]
# one character per record: the reads / other records of a case, and what is between the big ones
SIZE_SHAPES = ["sB", "ssBsw", "Bsi", "wsBBsi", "sBs", "sWs", "sIs", "sEs", "BsB", "isBw", "sBWs", "WB", "sBisB", "sEsB", "BB", "IsW", "ssssB", "sBssBs", "B", "wBw"]


def size_points(powers=SIZE_POWERS):
    return [(k, d) for k in powers for d in (-1, 0, 1)]


def sized_bytes(n, measure, block, tag):
    """a byte string of size exactly n — n is its length (measure 'raw') or the length of its repr, the text the handler
    buffers (measure 'repr') —: the tag (names the record: no two payloads of a case are equal, nor one the other's
    prefix, so a swap or a loss shows), then the block repeated, then a's.  Periodic on purpose (see _compact)."""
    size = (lambda b: len(repr(b))) if measure == "repr" else len
    unit = max(1, size(tag + block * 9) - size(tag + block * 8))
    k = max(0, (n - size(tag)) // unit)
    while k > 0 and size(tag + block * k) > n:
        k -= 1
    body = tag + block * k
    body += b"a" * (n - size(body))
    if size(body) != n:
        raise ValueError("no payload of %s size %d over %r" % (measure, n, block))
    return body


def sized_text(n, ch, tag):
    return (tag + ch * n)[:n] if n >= len(tag) else ch * n


def gen_size_case(rng, wide, point, shape, fill="periodic", second=None):
    """one record sequence of the given shape: s/w/i small read / write / info, B big lazy read (`read: %r` % bytes), E big eager
    read (the whole message a str), W big lazy write (`write: %r` % str), I big info message.  The first big record has the
    size of `point` = (k, d): 2^k + d; further big ones the size of `second` (default: another point not above the first).
    fill 'periodic': tag + repeated block (goes through the model too); 'random': tag + bytes of PAYLOAD_ALPHABET (oracle only)."""
    k, d = point
    n = (1 << k) + d
    measure = rng.choice(["raw", "repr"])
    ex = gen_extra(rng)
    buffered = rng.random() < 0.85
    recs, sizes, nbig = [], [], 0
    for j, ch in enumerate(shape):
        r = gen_record(rng, False, ex)
        tag = ("<%d>" % j).encode()
        if ch in "BEWI":
            if nbig == 0:
                size, meas = n, measure
            else:
                k2, d2 = second or (rng.choice([x for x in SIZE_POWERS if x <= k]), rng.choice([-1, 0, 1]))
                size, meas = (1 << k2) + d2, rng.choice(["raw", "repr"])
            nbig += 1
        if ch == "s":
            r["kind"], r["msg"], r["args"] = "lazy_read", "read: %r", [["b", (tag + gen_payload(rng)).hex()]]
        elif ch == "w":
            r["kind"], r["msg"], r["args"] = "lazy_write", "write: %r", [["s", "show tech %d" % j]]
        elif ch == "i":
            r["kind"], r["msg"], r["args"], r["level"] = "info", "sending channel input: show tech %d" % j, [], 20
        elif ch == "B":
            if fill == "random":
                b = tag + bytes(rng.choice(PAYLOAD_ALPHABET) for _ in range(size - len(tag)))
                meas = "raw"
            else:
                b = sized_bytes(size, meas, rng.choice(SIZE_BLOCKS), tag)
            r["kind"], r["msg"], r["args"] = "lazy_read", "read: %r", [["b", b.hex()]]
            sizes.append(["read", meas, size])
        elif ch == "E":     # eager: the text after "read: " has the size
            r["kind"], r["msg"], r["args"] = "eager_read", "read: " + sized_text(size, rng.choice("ax%'"), tag.decode()), []
            sizes.append(["eager_read", "text", size])
        elif ch == "W":
            r["kind"], r["msg"], r["args"] = "lazy_write", "write: %r", [["s", sized_text(size, rng.choice("ax%'\\\n"), tag.decode())]]
            sizes.append(["write", "text", size])
        elif ch == "I":
            r["kind"], r["msg"], r["args"], r["level"] = "info", sized_text(size, rng.choice("ax%{"), "info " + tag.decode()), [], 20
            sizes.append(["info", "text", size])
        else:
            raise ValueError(shape)
        recs.append(r)
    append = rng.random() < 0.25
    return {"buffered": buffered, "append": append, "caller": rng.random() < 0.2, "existing": rng.choice([None, "old line\n"]) if append else None,
            "close": rng.choice(["close", "shutdown"]), "recs": recs, "domain": True,
            "size_family": {"shape": shape, "power": k, "delta": d, "sizes": sizes, "fill": fill}}


def size_cases(rng, wide, thorough):
    """(cases for model + oracle, cases for the oracle alone).  Every size point 2^k + d (k = 10..18, d = -1, 0, 1) heads one
    case (thorough: one per measure and three more), the shapes taken in rotation from a shuffled SIZE_SHAPES so that every shape
    meets small and big sizes; plus mixed small/big runs with random shapes.  Quick tier: the model evaluates every case up to
    16 KiB + 1 and one case per power above, the rest is decided by the oracle alone; thorough: the model evaluates all the
    periodic ones."""
    shapes = list(SIZE_SHAPES)
    rng.shuffle(shapes)
    both, oracle_only, i = [], [], 0
    above = {}
    for rnd in range(5 if thorough else 1):
        for pt in size_points():
            c = gen_size_case(rng, wide, pt, shapes[i % len(shapes)])
            i += 1
            if thorough or pt[0] <= 14 or above.setdefault(pt[0], rng.choice([-1, 0, 1])) == pt[1]:
                both.append(c)
            else:
                oracle_only.append(c)
    for _ in range(60 if thorough else 10):                  # mixed runs, random shapes
        shape = "".join(rng.choice("ssssBBwiEWI") for _ in range(rng.choice([2, 3, 4, 6, 9])))
        if not set(shape) & set("BEWI"):
            shape += "B"
        pt = (rng.choice(SIZE_POWERS if thorough else SIZE_POWERS[:7]), rng.choice([-1, 0, 1]))
        if rng.random() < 0.5:
            oracle_only.append(gen_size_case(rng, wide, pt, shape, fill="random"))
        else:
            (both if (thorough or pt[0] <= 13) else oracle_only).append(gen_size_case(rng, wide, pt, shape))
    return both, oracle_only


def log_case_key(case):
    """what identifies a case in the evidence: the whole case, or (size families: megabytes) its description and a digest"""
    if "size_family" in case:
        import hashlib
        return json.dumps([case["size_family"], case["buffered"], case["append"], case["caller"], case["close"],
                           hashlib.sha256(json.dumps(case["recs"], sort_keys=True).encode()).hexdigest()], sort_keys=True)
    return json.dumps(case, sort_keys=True)


def shrink_log_sizes(case, workdir, asctime, why, fails=None):
    """shorten each long payload (a prefix of it) as far as the oracle keeps failing the same way: bisection per record"""
    cur = case

    def with_len(c, i, n):
        rd = dict(c["recs"][i])
        if rd["args"]:
            kind, v = rd["args"][-1]
            rd["args"] = rd["args"][:-1] + [[kind, v[:2 * n] if kind == "b" else v[:n]]]
        else:
            rd["msg"] = rd["msg"][:n]
        return dict(c, recs=c["recs"][:i] + [rd] + c["recs"][i + 1:])

    def length(rd):
        if rd["args"]:
            kind, v = rd["args"][-1]
            return len(v) // 2 if kind == "b" else len(v)
        return len(rd["msg"])

    fails = fails or (lambda c: oracle_log(c, run_log_impl(c, workdir), asctime) == why)
    for i in range(len(cur["recs"])):
        hi = length(cur["recs"][i])
        if hi < 64:
            continue
        lo = 8           # the tag / the "read: " prefix stay
        if fails(with_len(cur, i, lo)):
            cur = with_len(cur, i, lo)
            continue
        while hi - lo > 1:            # invariant: fails at hi, holds at lo
            mid = (lo + hi) // 2
            if fails(with_len(cur, i, mid)):
                hi = mid
            else:
                lo = mid
        cur = with_len(cur, i, hi)
    return cur if fails(cur) else case


def read_stream(case, obs):
    """layout-free reading of the file for cases whose messages are one line each: [('r', text of the reads of a run, concatenated) |
    ('o', message)] as emitted and as found in the file, where a read line may be spelled either way ('read : ' + repr of the
    encoded payload text, or 'read: ' + the text).  None when not applicable (multi-line messages, unparsable file)."""
    msgs = [(rd["msg"] % _args(rd)) if rd["args"] else rd["msg"] for rd in case["recs"]]
    if any("\n" in m or m.startswith("read : ") for m in msgs):
        return None

    def merge(items):
        out = []
        for k, v in items:
            if k == "r" and out and out[-1][0] == "r":
                out[-1] = ("r", out[-1][1] + v)
            else:
                out.append((k, v))
        return out
    want = merge([("r", m[len(READ_PREFIX):]) if m.startswith(READ_PREFIX) else ("o", m) for m in msgs])
    content = obs["file"]
    if case["append"] and case["existing"]:
        if not content.startswith(case["existing"]):
            return None
        content = content[len(case["existing"]):]
    lines = content.split("\n")
    if lines and lines[-1] == "":
        lines.pop()
    if lines and lines[0].startswith("ID ") and lines[0].endswith("MESSAGE"):
        lines = lines[1:]
    ncol = 7 if case["caller"] else 4
    got = []
    try:
        for ln in lines:
            parts = ln.split(" | ", ncol)
            if len(parts) != ncol + 1:
                return None
            m = parts[-1]
            if m.startswith("read : "):
                got.append(("r", ast.literal_eval(m[len("read : "):]).decode()))
            elif m.startswith(READ_PREFIX):
                got.append(("r", m[len(READ_PREFIX):]))
            else:
                got.append(("o", m))
    except Exception:  # noqa
        return None
    return want, merge(got)


def why_read_order(case, obs):
    """what is wrong with the BYTES of the reads, whatever the layout of the lines: None if nothing (or not applicable)"""
    ws = read_stream(case, obs)
    if ws is None or ws[0] == ws[1]:
        return None
    want, got = ws
    if [k for k, _ in want] == [k for k, _ in got] and all(sorted(a[1]) == sorted(b[1]) and len(a[1]) == len(b[1]) for a, b in zip(want, got)):
        i = [a == b for a, b in zip(want, got)].index(False)
        j = next(x for x in range(len(want[i][1])) if want[i][1][x] != got[i][1][x])
        return ("the reads are not in the file in the order they were made (nothing lost, nothing twice): run %d of reads, from character %d on the file "
                "has %r where %r was read" % (i + 1, j, got[i][1][j:j + 40], want[i][1][j:j + 40]))
    return "the text of the reads in the file (runs concatenated) is not the text that was read: %d characters read, %d in the file" % (
        sum(len(v) for k, v in want if k == "r"), sum(len(v) for k, v in got if k == "r"))


CORPUS_LOG = [
    # the baseline defects and boundary shapes
    {"buffered": True, "append": False, "caller": False, "existing": None, "close": "close", "domain": True, "recs": [
        {"kind": "lazy_read", "msg": "read: %r", "args": [["b", b"abc".hex()]], "level": 10, "extra": {"host": "h", "port": "22"}, "path": "sync_channel.py", "func": "read", "lineno": 74},
        {"kind": "lazy_read", "msg": "read: %r", "args": [["b", b"def".hex()]], "level": 10, "extra": {"host": "h", "port": "22"}, "path": "sync_channel.py", "func": "read", "lineno": 74},
        {"kind": "lazy_write", "msg": "write: %r", "args": [["s", "show version"]], "level": 10, "extra": {"host": "h", "port": "22"}, "path": "base_channel.py", "func": "write", "lineno": 374}]},
    {"buffered": True, "append": False, "caller": False, "existing": None, "close": "shutdown", "domain": True, "recs": [
        {"kind": "info", "msg": "opening", "args": [], "level": 20, "extra": {}, "path": "driver.py", "func": "open", "lineno": 1},
        {"kind": "eager_read", "msg": "read: b'last'", "args": [], "level": 10, "extra": {"uid": "u"}, "path": "sync_channel.py", "func": "read", "lineno": 74}]},
    {"buffered": False, "append": True, "caller": True, "existing": "old\n", "close": "close", "domain": True, "recs": [
        {"kind": "info", "msg": "host only", "args": [], "level": 20, "extra": {"host": "onlyhost"}, "path": "x.py", "func": "f", "lineno": 1}]},
    {"buffered": True, "append": False, "caller": False, "existing": None, "close": "close", "domain": True, "recs": [
        {"kind": "lazy_read", "msg": "read: %r", "args": [["b", b"100% 'q' \"d\" \xff".hex()]], "level": 10, "extra": {"host": "a" * 22, "port": "22"}, "path": "sync_channel.py", "func": "read", "lineno": 74}]},
    {"buffered": True, "append": False, "caller": False, "existing": None, "close": "close", "domain": True, "recs": []},
]


def enum_log_cases(maxlen):
    """every sequence up to maxlen over six record shapes through the buffering handler (the coalescing state machine exhaustively)"""
    import itertools
    ex = {"host": "h", "port": "22"}
    base = {"level": 10, "extra": ex, "path": "sync_channel.py", "func": "read", "lineno": 74}
    shapes = [dict(base, kind="lazy_read", msg="read: %r", args=[["b", b"a'\r".hex()]]),
              dict(base, kind="lazy_read", msg="read: %r", args=[["b", b"%\xff".hex()]]),
              dict(base, kind="eager_read", msg="read: plain", args=[]),
              dict(base, kind="lazy_write", msg="write: %r", args=[["s", "x"]]),
              dict(base, kind="info", msg="info 100%", args=[], level=20),
              dict(base, kind="malformed-few", msg="read: %r %r", args=[["b", b"z".hex()]])]
    out = []
    for n in range(1, maxlen + 1):
        for seq in itertools.product(range(len(shapes)), repeat=n):
            recs = [dict(shapes[i]) for i in seq]
            out.append({"buffered": True, "append": False, "caller": False, "existing": None, "close": "close", "recs": recs,
                        "domain": all(not r["kind"].startswith("malformed") for r in recs)})
    return out


def shrink_log(case, workdir, asctime, why, fails=None):
    """greedy removal of records while the oracle keeps failing (or: while `fails(case)` says so)"""
    cur = dict(case)
    changed = True
    fails = fails or (lambda c: oracle_log(c, run_log_impl(c, workdir), asctime) == why)
    while changed and len(cur["recs"]) > 1:
        changed = False
        for i in range(len(cur["recs"])):
            cand = dict(cur)
            cand["recs"] = cur["recs"][:i] + cur["recs"][i + 1:]
            if fails(cand):
                cur = cand
                changed = True
                break
    return cur


def classify_log(case, obs):
    kinds = set(r.get("kind") for r in case["recs"])
    if not obs["errors"] and not obs["escaped"] and oracle_log(case, obs, _asctime()) == WHY_TARGET:
        return "c20-target-attribution"
    if any("host" in r["extra"] and "port" not in r["extra"] for r in case["recs"]) and obs["errors"]:
        return "c20-host-without-port"
    if case["buffered"] and obs["errors"]:
        return "c20-buffered-lazy-read"
    if case["buffered"] and case["recs"] and not obs["errors"]:
        return "c20-buffered-content"
    return "c20-log-" + "-".join(sorted(k or "?" for k in kinds))[:40]


# ------------------------------------------------------------------------------------------------
# suite log-mode : the `mode` argument of enable_basic_logging in every spelling x files with previous content x both handlers
# ------------------------------------------------------------------------------------------------
MODE_WORDS = ["append", "write"]
MODE_BLANKS = [" ", "  ", "\t", "\n", "\r\n", "\x0b", "\x0c", "\u00a0", "\u2003"]
MODE_INVALID = ["", " ", "a", "w", "ab", "wb", "a+", "x", "r", "apend", "appendd", "appen", "writ", "writes", "wwrite", "append write", "write,append",
                "app end", "w rite", "overwrite", "truncate", "append\x00", "\x00write", "appe\u0301nd", "APP\u00c9ND", "WR\u0130TE", "wr\u0131te",
                "\uff41ppend", "append;", "'append'", "write\\n", "None", "True", "0"]
MODE_PREV = [None, "", "old line\n", "no newline", "1     | 2023-11-14 22:13:20,123 | INFO     | h:22                      | an earlier session\n"]


def mode_meaning(mode):
    """None: not a mode; False / True: write / append — what the spelling says once case and surrounding blanks are put aside"""
    return {"write": False, "append": True}.get(mode.strip().lower())


def all_casings(word):
    import itertools
    return ["".join(c.upper() if up else c for c, up in zip(word, ups)) for ups in itertools.product((False, True), repeat=len(word))]


def _mode_recs(rng, wide, n):
    ex = gen_extra(rng)
    recs = []
    for _ in range(n):
        r = gen_record(rng, False, ex)
        if rng.random() < 0.5:
            r["kind"], r["msg"], r["args"] = "lazy_read", "read: %r", [["b", gen_payload(rng).hex()]]
        recs.append(r)
    return recs


def mode_cases(rng, wide, thorough):
    """every casing of 'append' and 'write' (2^6 + 2^5 spellings), the usual spellings x {no file, empty file, files with content} x
    {buffering, plain} in full, spellings with surrounding blanks, and strings that are no mode"""
    out = []

    def mk(mode, buffered, existing, n):
        m = mode_meaning(mode)
        return {"mode": mode, "buffered": buffered, "append": bool(m), "caller": False, "existing": existing, "close": rng.choice(["close", "shutdown"]),
                "recs": _mode_recs(rng, wide, n), "domain": True, "mode_kind": "invalid" if m is None else ("exact" if mode in MODE_WORDS else
                                                                                                          "blanks" if mode != mode.strip() else "casing")}
    for w in MODE_WORDS:
        for sp in (w, w.upper(), w.capitalize(), w.swapcase().capitalize().swapcase()):
            for buffered in (True, False):
                for existing in MODE_PREV:
                    out.append(mk(sp, buffered, existing, rng.choice([0, 1, 2, 3])))
        for sp in all_casings(w):
            for _ in range(2 if thorough else 1):
                out.append(mk(sp, rng.random() < 0.5, rng.choice(MODE_PREV[2:] + [MODE_PREV[2]]), rng.choice([0, 1, 2])))
    for _ in range(120 if thorough else 24):
        w = rng.choice(MODE_WORDS)
        sp = rng.choice(all_casings(w))
        lead, trail = rng.choice(["", rng.choice(MODE_BLANKS)]), rng.choice(["", rng.choice(MODE_BLANKS)])
        sp = lead + sp + (trail if (lead or trail) else " ")
        out.append(mk(sp, rng.random() < 0.5, rng.choice(MODE_PREV), rng.choice([0, 1, 2])))
    for sp in MODE_INVALID:
        out.append(mk(sp, rng.random() < 0.5, rng.choice(MODE_PREV), rng.choice([0, 1])))
    return out


def oracle_mode(case, obs, asctime):
    """write and append modes, whatever the spelling: a spelling that IS write / append (case and surrounding blanks aside) is either
    served — append keeps the previous content and adds the records in order, write starts empty — or refused like any string
    that is no mode: a scrapli error, no handler left on the logger, the file as it was (not created, not truncated).
    'write' and 'append' themselves are always served."""
    meaning = mode_meaning(case["mode"])
    if obs["setup_exc"]:
        if case["mode"] in MODE_WORDS:
            return "enable_basic_logging(mode=%r) raised %s" % (case["mode"], obs["setup_exc"])
        if not obs["setup_scrapli"]:
            return "enable_basic_logging(mode=%r) raised %s, which is not a scrapli error" % (case["mode"], obs["setup_exc"])
        if obs["left_handlers"]:
            return "enable_basic_logging(mode=%r) raised %s but left a handler on the scrapli logger" % (case["mode"], obs["setup_exc"])
        if (case["existing"] is None and obs["file_exists"]) or (case["existing"] is not None and obs["file"] != case["existing"]):
            return "enable_basic_logging(mode=%r) raised %s but touched the file (previous content %r, now %r)" % (
                case["mode"], obs["setup_exc"], case["existing"], obs["file"][:80] if obs["file_exists"] else None)
        return None
    if meaning is None:
        return "enable_basic_logging accepted mode=%r, which is neither 'write' nor 'append' (the file now holds %r, previous content %r)" % (
            case["mode"], obs["file"][:80], case["existing"])
    why = oracle_log(dict(case, append=meaning), obs, asctime)
    if why and meaning and case["existing"] and not obs["file"].startswith(case["existing"]):
        return "mode=%r (append): the previous content of the log file %r is gone, the file now starts %r" % (case["mode"], case["existing"][:60], obs["file"][:60])
    if why and not meaning and case["existing"] and obs["file"].startswith(case["existing"]):
        return "mode=%r (write): the file still starts with its previous content %r" % (case["mode"], case["existing"][:60])
    return why and "mode=%r: %s" % (case["mode"], why)


MODE_HEADER = """From Verif Require Import Bytes LogFormat LogHandler.
Definition rp (n : N) (b : list N) : list N := N.iter n (fun acc => b ++ acc) [].
(* refused = true: enable_basic_logging raised; [f] is then the file as it was found afterwards *)
Definition chk (c : bool * str * bool * str * list record * bool * str * nat * nat) : bool :=
  let '(buffered, mode, caller, existing, recs, refused, f, e, x) := c in
  match run_basic buffered (fixed (mkFC caller true)) existing mode recs, refused with
  | None, true => beq existing f
  | Some st, false => beq (file st) f && Nat.eqb (errors st) e && Nat.eqb (escaped st) x
  | _, _ => false
  end.
"""


def mode_case_term(case, obs, asctime):
    refused = bool(obs["setup_exc"])
    f = obs["file"] if obs["file_exists"] else ""
    return "(%s, %s, %s, %s, %s, %s, %s, %d%%nat, %d%%nat)" % (
        coq_bool(case["buffered"]), cps(case["mode"]), coq_bool(case["caller"]), cps(case["existing"] or ""),
        coq_list([rec_term(r, asctime) for r in case["recs"]]) if case["recs"] else "(@nil record)", coq_bool(refused),
        cps(f), obs["errors"], len(obs["escaped"]))


# ------------------------------------------------------------------------------------------------
# suite log-multi : two or three handler instances (different files) alive in ONE process, interleaved record sequences
# ------------------------------------------------------------------------------------------------
def multi_subcase(case, k):
    """what handler k alone was given: its configuration and the records routed to it before it was closed"""
    recs, closed = [], False
    for ev in case["events"]:
        if ev[0] == "close" and ev[1] == k:
            closed = True
        elif ev[0] == "rec" and not closed and (case["route"] == "logger" or k in ev[2]):
            recs.append(ev[1])
    hc = case["handlers"][k]
    return {"buffered": hc["buffered"], "append": hc["append"], "caller": hc["caller"], "existing": hc["existing"], "close": hc["close"],
            "recs": recs, "domain": True}


def run_multilog_impl(case, workdir):
    """every handler is installed by enable_basic_logging (its own file, formatter and mode).  route 'logger': all of them
    stay attached to the scrapli logger, every record goes through the logger to every handler not closed yet (the SAME
    record object, as in real life); route 'direct': the handlers are detached and each record is handed to the handlers
    listed with it (a fresh record object each) — handlers of different loggers / sessions in one process.
    A 'close' event closes one handler in the middle of the others' traffic."""
    import scrapli.logging as sl
    paths, hs, escaped, setup_exc = [], [], [], None
    with _Quiet() as q:
        for k, hc in enumerate(case["handlers"]):
            path = _tmp(workdir, "mlog%d" % k) + ".log"
            if os.path.exists(path):
                os.remove(path)
            if hc["existing"] is not None:
                with open(path, "w", encoding="utf-8") as f:
                    f.write(hc["existing"])
            paths.append(path)
            try:
                sl.enable_basic_logging(file=path, level="debug", caller_info=hc["caller"], buffer_log=hc["buffered"],
                                        mode="append" if hc["append"] else "write")
                hs.append([h for h in q.new_handlers() if h not in hs][0])
            except Exception as e:  # noqa
                setup_exc = type(e).__name__
                break
        if setup_exc is None:
            if case["route"] == "direct":
                for h in hs:
                    q.lg.removeHandler(h)
            open_ = [True] * len(hs)

            def mk(rd):
                rec = q.lg.makeRecord("scrapli.channel", rd["level"], rd["path"], rd["lineno"], rd["msg"], _args(rd), None,
                                      rd["func"], dict(rd["extra"]) or None)
                rec.created, rec.msecs = CREATED, MSECS
                return rec

            def close(k):
                if not open_[k]:
                    return
                open_[k] = False
                q.lg.removeHandler(hs[k])
                try:
                    if case["handlers"][k]["close"] == "shutdown":
                        logging.shutdown([weakref.ref(hs[k])])
                    else:
                        hs[k].close()
                except Exception as e:  # noqa
                    escaped.append("close:" + type(e).__name__)
            for ev in case["events"]:
                if ev[0] == "close":
                    close(ev[1])
                    continue
                try:
                    if case["route"] == "logger":
                        q.lg.handle(mk(ev[1]))
                    else:
                        for k in ev[2]:
                            if open_[k]:
                                hs[k].handle(mk(ev[1]))
                except Exception as e:  # noqa
                    escaped.append(type(e).__name__)
            for k in range(len(hs)):
                close(k)
        for h in hs:                         # (set-up failed half way)
            q.lg.removeHandler(h)
            try:
                h.close()
            except Exception:  # noqa
                pass
        errors = q.errors()
        stderr_tail = q.err.getvalue()[-400:]
    files = []
    for path in paths:
        try:
            files.append(open(path, "rb").read().decode("utf-8"))
        except Exception as e:  # noqa
            files.append("<unreadable: %s>" % type(e).__name__)
    return {"files": files, "errors": errors, "escaped": escaped, "setup_exc": setup_exc, "stderr_tail": stderr_tail}


def multi_subobs(obs, k):
    return {"file": obs["files"][k] if k < len(obs["files"]) else "", "errors": obs["errors"], "escaped": obs["escaped"],
            "setup_exc": obs["setup_exc"], "stderr_tail": obs["stderr_tail"]}


def oracle_multilog(case, obs, asctime):
    """per file, the oracle of ONE handler on the records that handler was given: what other handlers of the process
    receive, hold or flush must not show"""
    for k in range(len(case["handlers"])):
        why = oracle_log(multi_subcase(case, k), multi_subobs(obs, k), asctime)
        if why:
            return k, why
    return None


def gen_multilog_case(rng, wide):
    nh = rng.choice([2, 2, 2, 3])
    handlers = []
    for _ in range(nh):
        append = rng.random() < 0.3
        handlers.append({"buffered": rng.random() < 0.85, "append": append, "caller": rng.random() < 0.2,
                         "existing": rng.choice([None, "", "old line\n"]) if append else rng.choice([None, None, "stale\n"]),
                         "close": rng.choice(["close", "close", "shutdown"])})
    route = "logger" if rng.random() < 0.35 else "direct"
    extras = [gen_extra(rng) for _ in range(nh)]
    if route == "logger":
        # one record object formatted by several ScrapliFormatters: the first completes it (host = port = "" when it has no
        # host), so the next shows ':' where the first showed '' — layout, outside the property; shared records carry both
        extras = [ex if ("host" in ex and "port" in ex) else dict(ex, host=ex.get("host", "h"), port=ex.get("port", "22")) for ex in extras]
    events, live = [], list(range(nh))
    n = rng.choice([2, 3, 4, 5, 6, 8, 10])
    while n > 0 and live:
        n -= 1
        if len(live) > 1 and rng.random() < 0.12:             # one handler is closed while the others go on
            k = rng.choice(live)
            live.remove(k)
            events.append(["close", k])
            continue
        r = rng.random()
        to = sorted(live) if r < 0.2 else sorted(rng.sample(live, 1 if r < 0.85 or len(live) < 2 else 2))
        ex = extras[to[0]]
        if rng.random() < 0.55:     # a run of reads for these handlers; the next event may well be for another handler
            for _ in range(rng.choice([1, 2, 2, 3])):
                rd = gen_record(rng, wide, ex)
                rd["kind"], rd["msg"], rd["args"] = "lazy_read", "read: %r", [["b", gen_payload(rng).hex()]]
                events.append(["rec", rd, to])
        else:
            events.append(["rec", gen_record(rng, wide, ex), to])
    order = list(live)
    rng.shuffle(order)
    events += [["close", k] for k in order]
    return {"handlers": handlers, "route": route, "events": events}


def enum_multilog_cases(maxlen):
    """every interleaving up to maxlen of {read, info} x {handler 0, handler 1} over two buffering handlers, closed in both orders"""
    import itertools
    base = {"level": 10, "path": "sync_channel.py", "func": "read", "lineno": 74}
    shapes = []
    for k in (0, 1):
        ex = {"host": "h%d" % k, "port": "22"}
        shapes.append(["rec", dict(base, extra=ex, kind="lazy_read", msg="read: %r", args=[["b", (b"r%d'" % k).hex()]]), [k]])
        shapes.append(["rec", dict(base, extra=ex, kind="info", msg="info %d 100%%" % k, args=[], level=20), [k]])
    hc = {"buffered": True, "append": False, "caller": False, "existing": None, "close": "close"}
    out = []
    for n in range(1, maxlen + 1):
        for seq in itertools.product(range(len(shapes)), repeat=n):
            if len(set(shapes[i][2][0] for i in seq)) < 2:
                continue                  # one handler only: the log-seq enumeration
            for order in ((0, 1), (1, 0)):
                out.append({"handlers": [dict(hc), dict(hc)], "route": "direct",
                            "events": [[shapes[i][0], dict(shapes[i][1]), list(shapes[i][2])] for i in seq] + [["close", k] for k in order]})
    return out


def shrink_multilog(case, workdir, asctime):
    def fails(c):
        return oracle_multilog(c, run_multilog_impl(c, workdir), asctime) is not None
    cur, changed = case, True
    while changed:
        changed = False
        for i in range(len(cur["events"])):
            cand = dict(cur, events=cur["events"][:i] + cur["events"][i + 1:])
            if fails(cand):
                cur, changed = cand, True
                break
    return cur


# ------------------------------------------------------------------------------------------------
# suite chan-log : the channel log of real channels over a scripted transport
# ------------------------------------------------------------------------------------------------
class _Transport:
    def __init__(self, chunks, host="dev1", port=22, uid=""):
        from scrapli.transport.base.base_transport import BaseTransportArgs
        self._base_transport_args = BaseTransportArgs(transport_options={}, host=host, port=port, timeout_socket=0,
                                                      timeout_transport=0, logging_uid=uid)
        self.chunks = list(chunks)
        self.events = []

    def _next(self):
        if not self.chunks:
            raise Starved()
        c = self.chunks.pop(0)
        self.events.append(("r", c))
        return c

    def read(self):
        return self._next()

    def write(self, channel_input):
        self.events.append(("w", bytes(channel_input)))

    def isalive(self):
        return True

    def close(self):
        pass


class _AsyncTransport(_Transport):
    async def read(self):  # noqa
        return self._next()


def _mk_channel(stack, transport, **bca):
    from scrapli.channel.base_channel import BaseChannelArgs
    args = BaseChannelArgs(timeout_ops=0, **bca)
    if stack == "sync":
        from scrapli.channel.sync_channel import Channel
        return Channel(transport=transport, base_channel_args=args)
    from scrapli.channel.async_channel import AsyncChannel
    return AsyncChannel(transport=transport, base_channel_args=args)


def _drive(stack, chan, ops, hooks=None):
    """run the operations; returns the list of (op, returned bytes hex | exception class).  An op named in `hooks` is a step of
    the history that is not a channel operation (logging being switched on in the middle of the session): the hook is called."""
    res = []
    hooks = hooks or {}

    def one_sync(op):
        if op[0] in hooks:
            return hooks[op[0]]()
        if op[0] == "read":
            return chan.read()
        if op[0] == "write":
            return chan.write(op[1], redacted=op[2])
        if op[0] == "get_prompt":
            return chan.get_prompt().encode()
        if op[0] == "send_input":
            return chan.send_input(op[1])[1]
        raise ValueError(op)

    async def one_async(op):
        if op[0] in hooks:
            return hooks[op[0]]()
        if op[0] == "read":
            return await chan.read()
        if op[0] == "write":
            return chan.write(op[1], redacted=op[2])
        if op[0] == "get_prompt":
            return (await chan.get_prompt()).encode()
        if op[0] == "send_input":
            return (await chan.send_input(op[1]))[1]
        raise ValueError(op)

    if stack == "sync":
        for op in ops:
            try:
                r = one_sync(op)
                res.append((op[0], r.hex() if isinstance(r, bytes) else None))
            except Starved:
                res.append((op[0], "Starved"))
            except Exception as e:  # noqa
                res.append((op[0], type(e).__name__))
    else:
        async def go():
            for op in ops:
                try:
                    r = await one_async(op)
                    res.append((op[0], r.hex() if isinstance(r, bytes) else None))
                except Starved:
                    res.append((op[0], "Starved"))
                except Exception as e:  # noqa
                    res.append((op[0], type(e).__name__))
        loop = asyncio.new_event_loop()
        try:
            loop.run_until_complete(go())
        finally:
            loop.close()
    return res


def run_chan_impl(case, workdir):
    d = _tmp(workdir, "chan")
    os.makedirs(d, exist_ok=True)
    chunks = [bytes.fromhex(c) for c in case["chunks"]]
    existing = bytes.fromhex(case["existing"])
    t = (_Transport if case["stack"] == "sync" else _AsyncTransport)(chunks)
    sink = case["sink"]
    mode = "append" if case["append"] else "write"
    path = None
    bio = None
    if sink == "path":
        path = os.path.join(d, "my channel.log")
        arg = path
    elif sink == "true":
        path = os.path.join(d, "scrapli_channel.log")
        arg = True
    elif sink == "bytesio":
        bio = io.BytesIO(existing)
        bio.seek(0, 2)
        arg = bio
    else:
        arg = False
    if path is not None and case["has_existing"]:
        with open(path, "wb") as f:
            f.write(existing)
    cwd = os.getcwd()
    os.chdir(d)
    exc = None
    got = None
    res = []
    try:
        with _Quiet():
            chan = _mk_channel(case["stack"], t, channel_log=arg, channel_log_mode=mode)
            chan.open()
            res = _drive(case["stack"], chan, [tuple(o) for o in case["ops"]])
            if bio is not None:
                got = bio.getvalue()
            chan.close()
    except Exception as e:  # noqa
        exc = type(e).__name__
    finally:
        os.chdir(cwd)
    if path is not None and os.path.exists(path):
        got = open(path, "rb").read()
    stray = sorted(f for f in os.listdir(d) if path is None or f != os.path.basename(path))
    served = b"".join(c for k, c in t.events if k == "r")
    shutil.rmtree(d, ignore_errors=True)
    return {"sink": None if got is None else got.hex(), "served": served.hex(), "served_chunks": [c.hex() for k, c in t.events if k == "r"], "results": res, "exc": exc, "stray_files": stray}


def oracle_chan(case, obs):
    if obs["exc"]:
        return "channel open/close raised %s" % obs["exc"]
    served = bytes.fromhex(obs["served"])
    existing = bytes.fromhex(case["existing"])
    if case["sink"] == "none":
        if obs["sink"] is not None or obs["stray_files"]:
            return "a channel log was written although channel_log is off"
        return None
    start = existing if (case["sink"] == "bytesio" or (case["append"] and case["has_existing"])) else b""
    want = start + served.replace(b"\r", b"")
    if obs["sink"] is None:
        return "no channel log was written"
    if bytes.fromhex(obs["sink"]) != want:
        return "channel log %r is not the bytes served with CRs removed %r" % (bytes.fromhex(obs["sink"])[:80], want[:80])
    if obs["stray_files"]:
        return "unexpected files %r" % obs["stray_files"]
    return None


def shrink_driver(case, workdir, why):
    """drop the operations after open, then the chunks served after the login, while the oracle keeps failing the same way"""
    def fails(c):
        o = c20_driver.run_driver_impl(c, workdir)
        w = c20_driver.oracle_driver(c, o)
        return (o, w) if (w and re.sub(r"\d+", "N", w)[:40] == re.sub(r"\d+", "N", why)[:40]) else None
    cur = case
    best = fails(cur)
    if best is None:        # not reproducible in isolation: report as it was seen
        o = c20_driver.run_driver_impl(case, workdir)
        return case, o, why
    for cand in (dict(cur, ops=[], on_open=[]), dict(cur, ops=[])):
        r = fails(cand)
        if r:
            cur, best = cand, r
            break
    while len(cur["chunks"]) > max(1, cur["login_chunks"]):       # the login dialogue itself stays whole
        cand = dict(cur, chunks=cur["chunks"][:-1])
        r = fails(cand)
        if not r:
            break
        cur, best = cand, r
    return cur, best[0], best[1]


CHUNK_PARTS = [b"\r\n", b"\r", b"\n", b"\x1b[0m", b"\x1b[2J", b"\x1b", b"[K", b"router#", b"show version", b"\x00", b"\xff\xfe", b"abc",
               b" ", b"\x1b[?25h", b"\x08", b"--More--", b"\x1b[1;32mok\x1b[0m", b"\r\r\n"]


def gen_chunk(rng):
    n = rng.choice([1, 1, 2, 3, 5])
    b = b"".join(rng.choice(CHUNK_PARTS) if rng.random() < 0.8 else bytes([rng.randint(0, 255)]) for _ in range(n))
    return b


def gen_chan_case(rng, stack):
    sink = rng.choice(["path", "path", "true", "bytesio", "bytesio", "none"])
    n = rng.choice([0, 1, 2, 3, 5, 9])
    chunks = [gen_chunk(rng) for _ in range(n)]
    if rng.random() < 0.15 and chunks:
        chunks[rng.randrange(len(chunks))] = b""      # EOF-like empty read
    has_existing = rng.random() < 0.5
    existing = rng.choice([b"old\r\n", b"\x1b[0mprev", b"x"]) if has_existing else b""
    return {"stack": stack, "sink": sink, "append": rng.random() < 0.5, "has_existing": has_existing, "existing": existing.hex(),
            "chunks": [c.hex() for c in chunks], "ops": [["read"]] * len(chunks)}


def gen_chan_ops_case(rng, stack):
    """public operations (get_prompt / send_input / write) over a device-like script: every transport read is logged"""
    cmd = rng.choice(["show version", "show ip int brief", "x"])
    out = rng.choice([b"line1\r\nline2", b"\x1b[1mbold\x1b[0m text", b"", b"a\rb"])
    prompt = b"router#"
    stream = cmd.encode() + b"\r\n" + out + b"\r\n" + prompt
    cuts = sorted(set(rng.randrange(1, len(stream)) for _ in range(rng.choice([0, 1, 3, 6]))))
    chunks = common.cut(stream, cuts)
    chunks2 = common.cut(b"\r\n" + prompt, sorted(set(rng.randrange(1, 9) for _ in range(rng.choice([0, 1, 2])))))
    ops = [["send_input", cmd], ["write", "secret", True], ["get_prompt"], ["write", "exit", False]]
    sink = rng.choice(["path", "true", "bytesio"])
    return {"stack": stack, "sink": sink, "append": False, "has_existing": False, "existing": "", "chunks": [c.hex() for c in chunks + chunks2], "ops": ops}


# ------------------------------------------------------------------------------------------------
# suite session : real channel + enable_basic_logging — the hot path emits the (lazy) records itself
# ------------------------------------------------------------------------------------------------
class _Capture(logging.Handler):
    def __init__(self):
        super().__init__()
        self.recs = []

    def emit(self, record):
        args = record.args
        enc = []
        ok = isinstance(args, tuple)
        for a in (args if ok else ()):
            if isinstance(a, bytes):
                enc.append(["b", a.hex()])
            elif isinstance(a, str):
                enc.append(["s", a])
            elif (a is None or isinstance(a, (bool, int, float, list))) and str(a) == repr(a) and isinstance(record.msg, str) and "%r" not in record.msg:
                enc.append(["o", str(a)])      # an object whose str() and repr() are the same text, shown with %s: the model is handed that text
            else:
                ok = False
        self.recs.append({"msg": record.msg, "args": enc, "level": record.levelno,
                          "extra": {k: getattr(record, k) for k in ("host", "port", "uid") if hasattr(record, k)},
                          "path": record.pathname, "func": record.funcName, "lineno": record.lineno, "ok": ok and isinstance(record.msg, str)})


def run_session_impl(case, workdir):
    import scrapli.logging as sl
    d = _tmp(workdir, "sess")
    os.makedirs(d, exist_ok=True)
    logpath = os.path.join(d, "scrapli.log")
    chunks = [bytes.fromhex(c) for c in case["chunks"]]
    t = (_Transport if case["stack"] == "sync" else _AsyncTransport)(chunks, host=case["host"], port=case["port"], uid=case["uid"])
    bio = io.BytesIO()
    cap = _Capture()
    exc = None
    sink = None
    late = case.get("late")          # None: logging is set up before the channel exists (the usual order)
    debug_at_open = None
    handle_errors = []
    orig_handle_error = logging.Handler.handleError

    def counting(self, record):          # handleError is silent when logging.raiseExceptions is False: count the calls themselves
        handle_errors.append(1)
        return orig_handle_error(self, record)

    with _Quiet() as q:
        logging.Handler.handleError = counting
        logging.raiseExceptions = case.get("raise_exceptions", True)        # (_Quiet restores the process-wide value)
        try:
            def basic(level):
                q.lg.addHandler(cap)
                sl.enable_basic_logging(file=logpath, level=level, buffer_log=case["buffered"], caller_info=case["caller"])

            def switch_on():
                # the moment from which the session is to be in the log file: marked in the wire record
                t.events.append(("enable", b""))
                if late["how"] == "basic":
                    basic("debug")                                    # enable_basic_logging on an open connection
                elif late["how"] == "setlevel":
                    q.lg.setLevel(logging.DEBUG)                      # logging.getLogger("scrapli").setLevel(DEBUG)
                else:
                    logging.getLogger("scrapli.channel").setLevel(logging.DEBUG)     # the channel's own logger

            if late is None:
                basic("debug")
            elif late["how"] == "basic":
                q.lg.setLevel(late["level_before"])                   # nothing installed yet, the level the application left
            else:
                basic(logging.getLevelName(late["level_before"]).lower())           # handler installed, but not at debug
            chan = _mk_channel(case["stack"], t, channel_log=bio)
            chan.open()
            debug_at_open = chan.logger.isEnabledFor(logging.DEBUG)
            res = _drive(case["stack"], chan, [tuple(o) for o in case["ops"]], hooks={"enable": switch_on})
            h = [x for x in q.new_handlers() if x is not cap][0]
            sink = bio.getvalue()
            chan.close()
            if case["close"] == "shutdown":
                logging.shutdown([weakref.ref(h)])
            else:
                h.close()
        except Exception as e:  # noqa
            exc = type(e).__name__
            res = []
        finally:
            logging.Handler.handleError = orig_handle_error
        errors = max(q.errors(), len(handle_errors))
        logging.getLogger("scrapli.channel").setLevel(logging.NOTSET)
    content = open(logpath, "rb").read().decode("utf-8") if os.path.exists(logpath) else ""
    shutil.rmtree(d, ignore_errors=True)
    return {"file": TS_RE.sub(TMASK, content), "errors": errors, "escaped": [], "exc": exc, "records": cap.recs, "debug_enabled_at_open": debug_at_open,
            "events": [(k, c.hex()) for k, c in t.events], "sink": None if sink is None else sink.hex(), "results": res}


def _segments_from_events(events):
    """[bytes read, write, bytes read, write, ...] as the transport saw them"""
    segs, cur = [], b""
    ks = [k for k, _ in events]
    if "enable" in ks:          # logging was switched on in the middle of the session: what follows is to be in the file
        events = events[ks.index("enable") + 1:]
    for k, c in events:
        c = bytes.fromhex(c)
        if k == "r":
            cur += c.replace(b"\r", b"")
        else:
            segs.append(cur)
            segs.append(("w", c))
            cur = b""
    segs.append(cur)
    return segs


def _segments_from_file(content, buffered, caller, redacted_writes):
    segs, cur = [], b""
    ncol = 7 if caller else 4
    lines = content.split("\n")
    if lines and lines[-1] == "":
        lines.pop()
    for ln in lines[1:]:                       # [0] is the header row
        parts = ln.split(" | ", ncol)
        if len(parts) != ncol + 1:
            raise ValueError("unparsable line %r" % ln)
        m = parts[-1]
        if buffered and m.startswith("read : "):
            inner = ast.literal_eval(m[len("read : "):]).decode()
            cur += ast.literal_eval(inner) if inner else b""
        elif (not buffered) and m.startswith("read: "):
            cur += ast.literal_eval(m[len("read: "):])
        elif m.startswith("write: "):
            rest = m[len("write: "):]
            segs.append(cur)
            segs.append(("w", None if rest == "REDACTED" else ast.literal_eval(rest).encode()))
            cur = b""
    segs.append(cur)
    return segs


def oracle_session(case, obs):
    if obs["exc"]:
        return "session raised %s" % obs["exc"]
    if obs["errors"]:
        return "%d record(s) handed to Handler.handleError ('--- Logging error ---' on stderr when logging.raiseExceptions is on) instead of being written" % obs["errors"]
    want = _segments_from_events(obs["events"])
    red = [o[1] for o in case["ops"] if o[0] == "write" and o[2]]
    try:
        got = _segments_from_file(obs["file"], case["buffered"], case["caller"], red)
    except Exception as e:  # noqa
        return "log file not parsable: %s" % e
    # redacted writes are logged without their text
    want2 = [(("w", None) if (isinstance(s, tuple) and s[1].decode() in red) else s) for s in want]
    if got != want2:
        return "log file does not hold the session: reads/writes in file %r, on the wire %r" % (got[:8], want2[:8])
    served = b"".join(bytes.fromhex(c) for k, c in obs["events"] if k == "r").replace(b"\r", b"")
    if obs["sink"] is None or bytes.fromhex(obs["sink"]) != served:
        return "channel log is not the bytes served with CRs removed"
    return None


LATE_HOW = {"basic": "enable_basic_logging(level='debug')", "setlevel": "logging.getLogger('scrapli').setLevel(DEBUG)",
            "chanlevel": "logging.getLogger('scrapli.channel').setLevel(DEBUG)"}


def shrink_session(case, obs, why, workdir):
    """drop operations (and, for a read, the chunk it was served) while the oracle keeps failing with the same words"""
    head = why[:40]
    cur, cobs, changed = case, obs, True
    while changed:
        changed = False
        for i, op in enumerate(cur["ops"]):
            if op[0] not in ("read", "write"):
                continue
            chunks = list(cur["chunks"])
            if op[0] == "read":
                j = sum(1 for o in cur["ops"][:i] if o[0] == "read")
                if j >= len(chunks) or any(o[0] in ("get_prompt", "send_input") for o in cur["ops"][:i]):
                    continue
                del chunks[j]
            cand = dict(cur, ops=cur["ops"][:i] + cur["ops"][i + 1:], chunks=chunks)
            o = run_session_impl(cand, workdir)
            w = oracle_session(cand, o)
            if w and w[:40] == head:
                cur, cobs, changed = cand, o, True
                break
    return cur, cobs


SESSION_ALPHABET = [39, 34, 37, 92, 13, 10, 9, 27, 0, 32, 97, 98, 114, 35, 62, 127, 128, 255, 0x5b, 0x6d]
# what a user types that a log call can trip over: %, %s, %d, %%, %(name)s, braces, backslashes (families of c20_inputs)
SESSION_TEXTS = [t for fam in ("percent", "%s", "%d", "%%", "%(name)s", "braces", "backslash", "mixed") for t in c20_inputs.FAMILIES[fam]]


def gen_session_case(rng, stack):
    ops, chunks = [], []
    for _ in range(rng.choice([1, 2, 3, 5, 8])):
        r = rng.random()
        if r < 0.6:
            for _ in range(rng.choice([1, 2, 2, 3])):
                chunks.append(bytes(rng.choice(SESSION_ALPHABET) for _ in range(rng.choice([0, 1, 3, 7, 20]))))
                ops.append(["read"])
        elif r < 0.8:
            ops.append(["write", rng.choice(["show run", "it's", "\n", 'say "x"', "100%"] + SESSION_TEXTS), False])
        elif r < 0.9:
            ops.append(["write", rng.choice(["s3cret", "s3cret", "p%sw", "p%(x)s{}\\"]), True])
        else:
            # a command through the public operation: its text is announced in an info message, echoed, answered
            cmd = rng.choice(SESSION_TEXTS)
            ops.append(["send_input", cmd])
            for ph in (cmd.encode(), b"\r\n" + rng.choice([b"", b"100% ok", b"line1\r\nline2 %s"]) + b"\r\nrouter#"):
                chunks += common.cut(ph, sorted(set(rng.randrange(1, len(ph)) for _ in range(rng.choice([0, 1, 2])))) if len(ph) > 1 else [])
    if rng.random() < 0.3:
        ops.append(["get_prompt"])
        chunks += common.cut(b"\r\nrouter#", sorted(set(rng.randrange(1, 9) for _ in range(rng.choice([0, 1, 2])))))
    if rng.random() < 0.5:      # end on reads: the pending record must reach the file at close
        chunks.append(b"tail\r\n#")
        ops.append(["read"])
    case = {"stack": stack, "buffered": rng.random() < 0.75, "caller": rng.random() < 0.25, "close": rng.choice(["close", "shutdown"]),
            "host": rng.choice(["dev1", "", "a" * 30]), "port": rng.choice([22, 0, 65535]), "uid": rng.choice(["", "u1"]),
            "raise_exceptions": rng.random() < 0.5}
    if rng.random() < 0.45:
        # logging is switched on AFTER channel.open(): before the first operation, between two operations (also inside a run of
        # reads), or after the last one.  'basic': enable_basic_logging(level="debug") on the open connection, nothing installed
        # before; 'setlevel': the handler is there from the start at a higher level, then getLogger("scrapli").setLevel(DEBUG);
        # 'chanlevel': the same through the channel's own logger "scrapli.channel"
        how = rng.choice(["basic", "basic", "setlevel", "setlevel", "chanlevel"])
        case["late"] = {"how": how, "level_before": rng.choice([0, 20, 30]) if how == "basic" else rng.choice([20, 30, 40, 50])}
        ops.insert(rng.choice([0, 0, rng.randrange(len(ops) + 1), rng.randrange(len(ops) + 1), len(ops)]), ["enable"])
        if rng.random() < 0.7:     # something is read after the moment
            for _ in range(rng.choice([1, 2, 3])):
                chunks.append(bytes(rng.choice(SESSION_ALPHABET) for _ in range(rng.choice([1, 3, 7, 20]))))
                ops.append(["read"])
    case.update({"chunks": [c.hex() for c in chunks], "ops": ops})
    return case


# ------------------------------------------------------------------------------------------------
def run(rep):
    from gen import gen_log

    rng = rep.rng
    thorough = rep.tier == "thorough"
    asctime = _asctime()
    import locale
    wide = locale.getpreferredencoding(False).lower().replace("-", "") == "utf8"   # the log file's encoding is the locale's
    WIDE[0] = wide
    # 1. regenerate from the source
    info = {}
    try:
        _, info = gen_log.generate(rep.workdir)
        rc, out, _ = common.coqc(os.path.join(rep.workdir, "Gen_Log.v"), rep.workdir)
        if rc:
            rep.broken.append("Gen_Log.v")
            rep.notes.append(out[-2000:])
    except Exception as e:  # translator aborted: broken tie
        rep.broken.append("gen_log:%s" % e)
    # 2. proofs
    ok, _ = rep.build_static()
    rep.add_static_obligations("props/C20.v", ok)
    if not ok:
        rep.broken.append("static-build")
    elif "Gen_Log.v" not in rep.broken and not any(b.startswith("gen_log") for b in rep.broken):
        rep.compile_props("props/C20.v")
    shutil.rmtree(os.path.join(rep.workdir, "tmp"), ignore_errors=True)

    # 3.0 regression corpus: the replays of the fixed findings must hold
    regress = {"replayed": 0, "failing": 0}
    for f in rep.findings:
        fp = os.path.join(common.VERIF, f.get("replay", ""))
        if not os.path.isfile(fp):
            continue
        r = json.load(open(fp))
        case = r["case"]
        if r["suite"] == "log-seq":
            o = run_log_impl(case, rep.workdir)
            why = oracle_log(case, o, asctime)
        elif r["suite"] == "session":
            o = run_session_impl(case, rep.workdir)
            why = oracle_session(case, o)
        elif r["suite"] == "driver":
            o = c20_driver.run_driver_impl(case, rep.workdir)
            why = c20_driver.oracle_driver(case, o)
        elif r["suite"] == "commandeer":
            o = c20_driver.run_cmd_impl(case, rep.workdir)
            why = c20_driver.oracle_cmd(case, o)
        elif r["suite"] == "log-multi":
            o = run_multilog_impl(case, rep.workdir)
            why = oracle_multilog(case, o, asctime)
            why = why and "file %d: %s" % why
        elif r["suite"] == "log-mode":
            o = run_log_impl(case, rep.workdir)
            why = oracle_mode(case, o, asctime)
        elif r["suite"] == "reopen":
            o = c20_reopen.run_reopen_impl(case, rep.workdir)
            why = c20_reopen.oracle_reopen(case, o)
        else:
            o = run_chan_impl(case, rep.workdir)
            why = oracle_chan(case, o)
        regress["replayed"] += 1
        rep.case(("finding", f["id"]))
        if why:
            regress["failing"] += 1
            rep.violation("finding %s is back: %s" % (f["id"], why), {"suite": r["suite"], "case": case, "observed": {k: v for k, v in o.items() if k != "records"}},
                          signature=f.get("signature") if f.get("kind") == "known" else None)
    rep.coverage["findings_replayed"] = regress

    # 3a. log-seq
    n_log = 6000 if thorough else 350
    n_mal = 1200 if thorough else 80
    cases, terms, fails = [], [], []
    dist = {"cases": 0, "buffered": 0, "append": 0, "caller_info": 0, "records": 0, "kinds": {}, "len_hist": {}, "extras": {},
            "ends_on_read": 0, "malformed_cases": 0, "close_kinds": {}}
    todo = [dict(c) for c in CORPUS_LOG] + enum_log_cases(4 if thorough else 3) + [gen_log_case(rng, wide) for _ in range(n_log)] + \
           [gen_log_case(rng, wide, malformed=True) for _ in range(n_mal)]
    dist["enumerated_kind_sequences"] = len(enum_log_cases(4 if thorough else 3))
    # size families: payloads of 2^k + d bytes (k = 10..18), small and big records mixed.  `sized`: model + oracle, spread over the
    # shards of the model evaluation; `sized_oracle_only`: decided by the oracle alone (after the log-multi cases, see below)
    sized, sized_oracle_only = size_cases(rng, wide, thorough)
    step = max(1, len(todo) // (len(sized) + 1))
    for j, c in enumerate(sized):
        todo.insert(min(len(todo), (j + 1) * step + j), c)
    dist["size_families"] = {"cases": 0, "model_evaluated": len(sized), "oracle_only": len(sized_oracle_only), "powers": {}, "deltas": {}, "shapes": {},
                             "big_kinds": {}, "measures": {}, "fills": {}, "buffered": 0, "read_before_big_read_unflushed": 0, "bytes_in_files": 0}

    def log_one(case, with_term):
        obs = run_log_impl(case, rep.workdir)
        cases.append((case, obs))
        if with_term:
            terms.append(log_case_term(case, obs, asctime))
        dist["cases"] += 1
        dist["buffered"] += case["buffered"]
        dist["append"] += case["append"]
        dist["caller_info"] += case["caller"]
        dist["records"] += len(case["recs"])
        dist["len_hist"][len(case["recs"])] = dist["len_hist"].get(len(case["recs"]), 0) + 1
        dist["close_kinds"][case["close"]] = dist["close_kinds"].get(case["close"], 0) + 1
        dist["malformed_cases"] += (not case["domain"])
        for r in case["recs"]:
            dist["kinds"][r["kind"]] = dist["kinds"].get(r["kind"], 0) + 1
            key = "+".join(sorted(r["extra"])) or "-"
            dist["extras"][key] = dist["extras"].get(key, 0) + 1
        if case["recs"] and case["recs"][-1]["kind"] in ("lazy_read", "eager_read"):
            dist["ends_on_read"] += 1
        nread = sum(1 for r in case["recs"] if r["kind"] in ("lazy_read", "eager_read"))
        sf = case.get("size_family")
        if sf:
            sd = dist["size_families"]
            sd["cases"] += 1
            sd["buffered"] += case["buffered"]
            sd["bytes_in_files"] += len(obs["file"])
            for key, val in (("powers", sf["power"]), ("deltas", sf["delta"]), ("shapes", sf["shape"]), ("fills", sf["fill"])):
                sd[key][val] = sd[key].get(val, 0) + 1
            for kind, meas, _ in sf["sizes"]:
                sd["big_kinds"][kind] = sd["big_kinds"].get(kind, 0) + 1
                sd["measures"][meas] = sd["measures"].get(meas, 0) + 1
            # a big read arriving while smaller reads are pending in the buffer
            sd["read_before_big_read_unflushed"] += case["buffered"] and any(a in "sBE" and b in "BE" for a, b in zip(sf["shape"], sf["shape"][1:]))
        rep.case(("log", log_case_key(case)), nontrivial=len(case["recs"]) >= 2 and nread >= 1)
        if case["domain"]:
            why = oracle_log(case, obs, asctime)
            if why:
                fails.append((len(cases) - 1, why))

    for case in todo:
        log_one(case, True)
    # 3a'. log-multi : several handler instances in one process; every file goes to the model and the oracle as the file of
    # ONE handler given the records routed to it
    n_multi = 900 if thorough else 70
    mcases, mfails, multi_ix, mranges = [], [], set(), []
    mdist = {"cases": 0, "enumerated_interleavings": 0, "handlers": {}, "routes": {}, "files": 0, "buffering_handlers": 0, "mid_session_closes": 0,
             "records": 0, "handovers_with_pending_reads": 0}
    mtodo = enum_multilog_cases(4 if thorough else 3)
    mdist["enumerated_interleavings"] = len(mtodo)
    mtodo += [gen_multilog_case(rng, wide) for _ in range(n_multi)]
    for mc in mtodo:
        mobs = run_multilog_impl(mc, rep.workdir)
        mcases.append((mc, mobs))
        nh = len(mc["handlers"])
        mdist["cases"] += 1
        mdist["handlers"][nh] = mdist["handlers"].get(nh, 0) + 1
        mdist["routes"][mc["route"]] = mdist["routes"].get(mc["route"], 0) + 1
        mdist["files"] += nh
        mdist["buffering_handlers"] += sum(1 for h in mc["handlers"] if h["buffered"])
        recs_ev = [e for e in mc["events"] if e[0] == "rec"]
        mdist["records"] += len(recs_ev)
        last_close = max(i for i, e in enumerate(mc["events"]) if e[0] == "rec") if recs_ev else -1
        mdist["mid_session_closes"] += sum(1 for i, e in enumerate(mc["events"]) if e[0] == "close" and i < last_close)
        # a read for one handler directly followed by a record for (also) another one: the first still holds its reads
        mdist["handovers_with_pending_reads"] += sum(1 for a, b in zip(recs_ev, recs_ev[1:]) if a[1]["kind"] in ("lazy_read", "eager_read")
                                                     and (mc["route"] == "logger" or set(b[2]) - set(a[2])))
        rep.case(("mlog", json.dumps(mc, sort_keys=True)), nontrivial=len(recs_ev) >= 2 and any(e[1]["kind"] in ("lazy_read", "eager_read") for e in recs_ev))
        mranges.append((len(cases), nh))
        for k in range(nh):
            sub, sobs = multi_subcase(mc, k), multi_subobs(mobs, k)
            multi_ix.add(len(cases))
            cases.append((sub, sobs))
            terms.append(log_case_term(sub, sobs, asctime))
        bad_file = oracle_multilog(mc, mobs, asctime)
        if bad_file:
            mfails.append((len(mcases) - 1, bad_file))
    # the size-family cases the model does not evaluate: real handler + oracle (cases[] is longer than terms[] from here on)
    for case in sized_oracle_only:
        log_one(case, False)
    rep.sample({"suite": "log-multi", "case": mcases[-1][0], "files": mcases[-1][1]["files"]})
    rep.sample({"suite": "log-seq", "case": cases[0][0], "file": cases[0][1]["file"]})
    if len(cases) > 20:
        rep.sample({"suite": "log-seq", "case": cases[20][0], "file": cases[20][1]["file"], "errors": cases[20][1]["errors"]})
    bad, log = common.eval_cases(rep.workdir, "cases_c20_log", LOG_HEADER, terms, "chk", shard=150)
    rep.coverage["correspondence"] = {"log-seq": {"cases": len(terms), "distribution": dist,
                                                  "model_disagreements": None if bad is None else len(bad), "oracle_failures": len(fails)}}
    rep.coverage["correspondence"]["log-multi"] = {"cases": len(mcases), "distribution": mdist, "oracle_failures": len(mfails),
                                                   "model_disagreements": None if bad is None else len([b for b in bad if b in multi_ix])}
    seen_m = set()
    for ix, (k, why) in mfails:
        mc, _ = mcases[ix]
        key = (mc["route"], why)
        if key in seen_m or len(seen_m) >= 3:
            continue
        seen_m.add(key)
        small = shrink_multilog(mc, rep.workdir, asctime)
        sobs = run_multilog_impl(small, rep.workdir)
        k2, why2 = oracle_multilog(small, sobs, asctime) or (k, why)
        rep.violation("log files (%d handlers in one process, records %s): file %d (%s handler): %s" % (
            len(small["handlers"]), "through the scrapli logger to all of them" if small["route"] == "logger" else "handed to the handlers listed with them",
            k2, "buffering" if small["handlers"][k2]["buffered"] else "plain", why2),
            {"suite": "log-multi", "case": small, "observed": sobs, "failing_file": k2,
             "expected_regex": expected_log_regex(multi_subcase(small, k2), asctime), "rerun": "./check C20 --replay <this file>"})
    # the files of a failing multi-handler case are not reported a second time as model disagreements
    multi_failing = set(j for ix, _ in mfails for j in range(mranges[ix][0], mranges[ix][0] + mranges[ix][1]))
    seen_sig = set()
    if fails:       # first the failures that are about the bytes of the reads themselves
        fails = sorted(fails, key=lambda f: why_read_order(*cases[f[0]]) is None)
    for ix, why in fails:
        case, obs = cases[ix]
        sig = classify_log(case, obs)
        if sig in seen_sig or len(seen_sig) >= 6:
            continue
        seen_sig.add(sig)
        # a failure that is about the BYTES of the reads (lost, twice, out of order — whatever the layout of the lines) is shrunk as
        # such, so that the input reported shows it and not merely another spelling of a line
        bytes_wrong = (lambda c: why_read_order(c, run_log_impl(c, rep.workdir)) is not None) if why_read_order(case, obs) else None
        small = shrink_log(case, rep.workdir, asctime, why, bytes_wrong)
        if any(len(r["msg"]) + sum(len(v) for _, v in r["args"]) >= 128 for r in small["recs"]):
            small = shrink_log_sizes(small, rep.workdir, asctime, why, bytes_wrong)       # the shortest payloads that still fail
        small = {k: v for k, v in small.items() if k != "size_family"}
        sobs = run_log_impl(small, rep.workdir)
        why = oracle_log(small, sobs, asctime) or why
        if bytes_wrong and why_read_order(small, sobs):
            why = "%s: %s" % (why, why_read_order(small, sobs))
        lens = [len(m) for _, m in [(r, (r["msg"] % _args(r)) if r["args"] else r["msg"]) for r in small["recs"]]]
        rx = expected_log_regex(small, asctime)
        rep.violation("log file (%s handler, %s mode%s): %s" % ("buffering" if small["buffered"] else "plain", "append" if small["append"] else "write",
                                                               ", messages of %s characters" % lens if max(lens + [0]) >= 128 else "", why),
                      {"suite": "log-seq", "case": small, "observed": sobs, "expected_regex": rx if len(rx) <= 8000 else rx[:8000] + " ... (%d characters)" % len(rx),
                       "target_mismatches": target_mismatches(small, sobs, asctime), "rerun": "./check C20 --replay <this file>"}, signature=sig)
    if bad is None:
        rep.broken.append("correspondence log-seq (model evaluation failed)")
        rep.notes.append(log)
    elif bad:
        failing = set(ix for ix, _ in fails) | multi_failing
        for ix in [b for b in bad if b not in failing][:3]:
            case, obs = cases[ix]
            rep.broken.append("correspondence %s: model differs from implementation (%s)" % (
                "log-multi (one file of several handlers)" if ix in multi_ix else "log-seq", "inside the property's domain" if case["domain"] else "malformed records"))
            mfile = common.eval_term(rep.workdir, "dis_c20_%d" % ix, "From Verif Require Import Bytes LogFormat LogHandler.\n" + RP_DEF,
                                     "let st := run_handler %s (fixed (mkFC %s true)) %s %s %s in (file st, errors st, escaped st)" % (
                                         coq_bool(case["buffered"]), coq_bool(case["caller"]), cps(case["existing"] or ""), coq_bool(case["append"]),
                                         coq_list([rec_term(r, asctime) for r in case["recs"]])))
            rep.notes.append("log-seq disagreement: case %s observed %s model %s" % (json.dumps(case)[:1500], json.dumps(obs)[:1500], mfile[-1500:]))
        if not fails and not mfails and any(b not in failing for b in bad):
            # search for a failing input of the property near the disagreements: sub-sequences, both handlers, both closes
            found = False
            for ix in bad[:5]:
                case, _ = cases[ix]
                for buffered in (True, False):
                    for k in range(len(case["recs"]) + 1):
                        cand = dict(case, buffered=buffered, recs=[r for r in case["recs"][:k] if not r["kind"].startswith("malformed")], domain=True)
                        o = run_log_impl(cand, rep.workdir)
                        why = oracle_log(cand, o, asctime)
                        if why:
                            rep.violation("log file: %s" % why, {"suite": "log-seq", "case": cand, "observed": o})
                            found = True
                            break
                    if found:
                        break
                if found:
                    break

    # 3a-m. log-mode : the mode argument in every spelling x previous content x both handlers
    ocases, oterms, ofails = [], [], []
    odist = {"cases": 0, "kinds": {}, "spellings": set(), "buffered": 0, "with_previous_content": 0, "no_file_before": 0, "refused": 0,
             "served_append": 0, "served_write": 0, "records": 0}
    for case in mode_cases(rng, wide, thorough):
        obs = run_log_impl(case, rep.workdir)
        ocases.append((case, obs))
        oterms.append(mode_case_term(case, obs, asctime))
        odist["cases"] += 1
        odist["kinds"][case["mode_kind"]] = odist["kinds"].get(case["mode_kind"], 0) + 1
        odist["spellings"].add(case["mode"])
        odist["buffered"] += case["buffered"]
        odist["with_previous_content"] += bool(case["existing"])
        odist["no_file_before"] += case["existing"] is None
        odist["refused"] += bool(obs["setup_exc"])
        odist["served_append"] += (not obs["setup_exc"]) and mode_meaning(case["mode"]) is True
        odist["served_write"] += (not obs["setup_exc"]) and mode_meaning(case["mode"]) is False
        odist["records"] += len(case["recs"])
        rep.case(("mode", json.dumps(case, sort_keys=True)), nontrivial=bool(case["existing"]) and case["mode"] not in MODE_WORDS)
        why = oracle_mode(case, obs, asctime)
        if why:
            ofails.append((len(ocases) - 1, why))
    odist["spellings"] = len(odist["spellings"])
    rep.sample({"suite": "log-mode", "case": ocases[3][0], "file": ocases[3][1]["file"]})
    obad, olog = common.eval_cases(rep.workdir, "cases_c20_mode", MODE_HEADER, oterms, "chk", shard=150 if thorough else 50)
    rep.coverage["correspondence"]["log-mode"] = {"cases": len(ocases), "distribution": odist, "oracle_failures": len(ofails),
                                                  "model_disagreements": None if obad is None else len(obad)}
    seen_o = set()
    for ix, why in ofails:
        case, obs = ocases[ix]
        key = (case["buffered"], case["mode_kind"], mode_meaning(case["mode"]), re.sub(r"'[^']*'|\d+", "_", why)[:40])
        if key in seen_o or len(seen_o) >= 4:
            continue
        seen_o.add(key)
        small = case
        if not obs["setup_exc"]:           # fewer records while it keeps failing
            for n in range(len(case["recs"])):
                cand = dict(case, recs=case["recs"][:n])
                if oracle_mode(cand, run_log_impl(cand, rep.workdir), asctime):
                    small = cand
                    break
        sobs = run_log_impl(small, rep.workdir)
        rep.violation("log file (%s handler, enable_basic_logging(mode=%r), previous content of the file %r): %s" % (
            "buffering" if small["buffered"] else "plain", small["mode"], small["existing"], oracle_mode(small, sobs, asctime) or why),
            {"suite": "log-mode", "case": small, "observed": sobs, "rerun": "./check C20 --replay <this file>"})
    if obad is None:
        rep.broken.append("correspondence log-mode (model evaluation failed)")
        rep.notes.append(olog)
    else:
        failing = set(ix for ix, _ in ofails)
        for ix in [b for b in obad if b not in failing][:3]:
            rep.broken.append("correspondence log-mode: model differs from implementation (mode=%r)" % ocases[ix][0]["mode"])
            rep.notes.append("log-mode disagreement: %s %s" % (json.dumps(ocases[ix][0])[:800], json.dumps(ocases[ix][1])[:800]))

    # 3b. chan-log
    n_chan = 1500 if thorough else 150
    ccases, cterms, cfails = [], [], []
    cdist = {"cases": 0, "sinks": {}, "stacks": {}, "with_esc": 0, "with_cr": 0, "append": 0, "ops_cases": 0}
    for i in range(n_chan):
        stack = "sync" if i % 2 == 0 else "asyncio"
        case = gen_chan_ops_case(rng, stack) if i % 5 == 4 else gen_chan_case(rng, stack)
        obs = run_chan_impl(case, rep.workdir)
        ccases.append((case, obs))
        served = bytes.fromhex(obs["served"])
        cdist["cases"] += 1
        cdist["sinks"][case["sink"]] = cdist["sinks"].get(case["sink"], 0) + 1
        cdist["stacks"][stack] = cdist["stacks"].get(stack, 0) + 1
        cdist["with_esc"] += b"\x1b" in served
        cdist["with_cr"] += b"\r" in served
        cdist["append"] += case["append"]
        cdist["ops_cases"] += case["ops"] != [["read"]] * len(case["chunks"])
        rep.case(("chan", json.dumps(case, sort_keys=True)), nontrivial=case["sink"] != "none" and (b"\r" in served or b"\x1b" in served))
        why = oracle_chan(case, obs)
        if why:
            cfails.append((len(ccases) - 1, why))
        # the model sees the chunks actually served (a public op may leave some unread)
        mcase = dict(case, chunks=obs["served_chunks"])
        mcase["existing"] = case["existing"] if (case["sink"] == "bytesio" or case["has_existing"]) else ""
        cterms.append(chan_case_term(mcase, obs))
    rep.sample({"suite": "chan-log", "case": ccases[0][0], "sink": ccases[0][1]["sink"]})

    # 3b'. driver : whole sessions through the real Driver.open / AsyncDriver.open (login dialogue in the channel), every sink;
    # the model sees the channel-level events in the order they were OBSERVED (channel.open() relative to the reads)
    n_drv = 900 if thorough else 120
    dcases, dfails = [], []
    ddist = {"cases": 0, "combos": {}, "sinks": {}, "faults": {}, "drivers": {}, "bypass": 0, "on_open": 0, "login_completed": 0,
             "login_bytes_served": 0, "ops_completed": 0, "ops_starved": 0, "open_outcomes": {}, "chan_open_before_first_read": 0}
    for i in range(n_drv):
        case = c20_driver.gen_driver_case(rng, i, gen_chunk)
        obs = c20_driver.run_driver_impl(case, rep.workdir)
        dcases.append((case, obs))
        combo = "%s/%s" % (case["stack"], case["transport"])
        ddist["cases"] += 1
        for key, val in (("combos", combo), ("sinks", case["sink"]), ("faults", case["fault"]), ("drivers", case["driver"]),
                         ("open_outcomes", str(obs["results"][0][1]) if obs["results"] else "?")):
            ddist[key][val] = ddist[key].get(val, 0) + 1
        ddist["bypass"] += case["bypass"]
        ddist["on_open"] += bool(case["on_open"])
        opened = bool(obs["results"]) and obs["results"][0] == ("open", None)
        ddist["login_completed"] += opened and not case["bypass"]
        ddist["login_bytes_served"] += sum(len(c) // 2 for c in obs["served_chunks"][:case["login_chunks"]])
        ddist["ops_completed"] += sum(1 for r in obs["results"][1:-1] if r[1] != "Starved")
        ddist["ops_starved"] += sum(1 for r in obs["results"][1:-1] if r[1] == "Starved")
        ddist["chan_open_before_first_read"] += obs["open_before_first_read"]
        rep.case(("drv", json.dumps(case, sort_keys=True)), nontrivial=case["sink"] != "none" and not case["bypass"] and len(obs["served_chunks"]) >= 2)
        why = c20_driver.oracle_driver(case, obs)
        if why:
            dfails.append((len(dcases) - 1, why))
        mcase = dict(case, events=obs["events"])
        mcase["existing"] = case["existing"] if (case["sink"] == "bytesio" or case["has_existing"]) else ""
        cterms.append(chan_case_term(mcase, obs))
    rep.sample({"suite": "driver", "case": dcases[0][0], "sink": dcases[0][1]["sink"], "events": dcases[0][1]["events"]})
    # 3b''. commandeer : driver A opens and reads, driver B (same / different / no channel_log) commandeers it, both read, both close.
    # The model (one log per connection: A's sink, every read of the connection whichever object made it) sees A's sink only.
    n_cmd = 900 if thorough else 100
    kcases, kfails, kterms = [], [], []
    kdist = {"cases": 0, "combos": {}, "sink_pairs": {}, "same_destination": 0, "login_in_channel": 0, "on_open_b": 0, "reads_by": {}, "close_order": {},
             "reads_before_commandeer": 0, "reads_after_commandeer": 0}
    for i in range(n_cmd):
        case = c20_driver.gen_cmd_case(rng, i, gen_chunk)
        obs = c20_driver.run_cmd_impl(case, rep.workdir)
        kcases.append((case, obs))
        kdist["cases"] += 1
        for key, val in (("combos", "%s/%s" % (case["stack"], case["transport"])), ("sink_pairs", "%s<-%s" % (case["sink_a"], case["sink_b"])),
                         ("close_order", case["close"])):
            kdist[key][val] = kdist[key].get(val, 0) + 1
        kdist["same_destination"] += case["sink_a"] == case["sink_b"] != "none"
        kdist["login_in_channel"] += bool(case["login"])
        kdist["on_open_b"] += bool(case["on_open_b"]) and case["execute_on_open"]
        after = False
        for ev in obs["events"]:
            after = after or ev[0] == "cmd-begin"
            if ev[0] == "r":
                kdist["reads_by"][ev[1]] = kdist["reads_by"].get(ev[1], 0) + 1
                kdist["reads_after_commandeer" if after else "reads_before_commandeer"] += 1
        rep.case(("cmd", json.dumps(case, sort_keys=True)),
                 nontrivial=(case["sink_a"] != "none" or case["sink_b"] != "none") and len(set(ev[1] for ev in obs["events"] if ev[0] == "r")) == 2)
        why = c20_driver.oracle_cmd(case, obs)
        if why:
            kfails.append((len(kcases) - 1, why))
        mcase, mobs = c20_driver.cmd_model_case(case, obs)
        cterms.append(chan_case_term(mcase, mobs))         # the connection-level model (ChanLog.sess_log): A's sink, every read
        kterms.append(cmd_case_term(case, obs))            # the two-object model (Commandeer.cmd_run): A's and B's destinations
    rep.sample({"suite": "commandeer", "case": kcases[0][0], "sinks": kcases[0][1]["sinks"], "events": kcases[0][1]["events"]})
    cbad, clog = common.eval_cases(rep.workdir, "cases_c20_chan", CHAN_HEADER, cterms, "chk", shard=400 if thorough else 100)
    n_cd = len(ccases) + len(dcases)
    kbad = None if cbad is None else [b - n_cd for b in cbad if b >= n_cd]
    kbad2, klog = common.eval_cases(rep.workdir, "cases_c20_cmd", CMD_HEADER, kterms, "chk")
    if kbad2 is None:
        rep.broken.append("correspondence commandeer (model evaluation failed)")
        rep.notes.append(klog)
    elif kbad is not None:
        kbad = sorted(set(kbad) | set(kbad2))
    dbad = None if cbad is None else [b - len(ccases) for b in cbad if len(ccases) <= b < n_cd]
    cbad = None if cbad is None else [b for b in cbad if b < len(ccases)]
    rep.coverage["correspondence"]["commandeer"] = {"cases": len(kcases), "distribution": kdist,
                                                    "model_disagreements": None if kbad is None else len(kbad), "oracle_failures": len(kfails)}
    seen_k = set()
    for ix, why in kfails:
        case, obs = kcases[ix]
        key = (case["stack"], case["sink_a"] == case["sink_b"], re.sub(r"\d+", "N", why)[:30])
        if key in seen_k or len(seen_k) >= 3:
            continue
        seen_k.add(key)
        small, sobs, swhy = c20_driver.shrink_cmd(case, rep.workdir, why)
        rep.violation("commandeered session (%s drivers, transport %s, channel_log of A: %s, of B: %s): %s" % (
            small["stack"], small["transport"], small["sink_a"], small["sink_b"], swhy),
            {"suite": "commandeer", "case": small, "observed": sobs, "expected": {k: (None if v is None else v.hex()) for k, v in c20_driver.cmd_expected(small, sobs).items()},
             "rerun": "./check C20 --replay <this file>"})
    kfailing = set(i for i, _ in kfails)
    for ix in [b for b in (kbad or []) if b not in kfailing][:3]:
        rep.broken.append("correspondence commandeer: model differs from implementation")
        rep.notes.append("commandeer disagreement: %s %s" % (json.dumps(kcases[ix][0])[:800], json.dumps(kcases[ix][1])[:800]))
    if kbad and not kfails:
        # search for a failing input near the disagreements: the same session with both drivers pointed at ONE destination
        found = False
        for ix in kbad[:4]:
            case, _ = kcases[ix]
            for sink in ("path", "true", "bytesio"):
                for app in (False, True):
                    cand = dict(case, sink_a=sink, sink_b=sink, append_a=app, append_b=app, existing={k: v for k, v in case["existing"].items() if k == sink})
                    o = c20_driver.run_cmd_impl(cand, rep.workdir)
                    why = c20_driver.oracle_cmd(cand, o)
                    if why and not found:
                        found = True
                        small, sobs, swhy = c20_driver.shrink_cmd(cand, rep.workdir, why)
                        rep.violation("commandeered session (%s drivers, channel_log of A and B: %s): %s" % (small["stack"], sink, swhy),
                                      {"suite": "commandeer", "case": small, "observed": sobs, "rerun": "./check C20 --replay <this file>"})
            if found:
                break
    rep.coverage["correspondence"]["driver"] = {"cases": len(dcases), "distribution": ddist,
                                                "model_disagreements": None if dbad is None else len(dbad), "oracle_failures": len(dfails)}
    seen_d = set()
    for ix, why in sorted(dfails, key=lambda f: (dcases[f[0]][0]["fault"] != "none", f[0])):     # completed logins first
        case, obs = dcases[ix]
        key = (case["stack"], case["transport"], re.sub(r"\d+", "N", why)[:40])
        if key in seen_d or len(seen_d) >= 3:
            continue
        seen_d.add(key)
        small, sobs, swhy = shrink_driver(case, rep.workdir, why)
        rep.violation("whole session (%s driver, transport %s, sink %s): %s" % (small["stack"], small["transport"], small["sink"], swhy),
                      {"suite": "driver", "case": small, "observed": sobs, "rerun": "./check C20 --replay <this file>"})
    for ix in [b for b in (dbad or []) if b not in set(i for i, _ in dfails)][:3]:
        rep.broken.append("correspondence driver: model differs from implementation")
        rep.notes.append("driver disagreement: %s %s" % (json.dumps(dcases[ix][0])[:800], json.dumps(dcases[ix][1])[:800]))
    rep.coverage["correspondence"]["chan-log"] = {"cases": len(cterms), "distribution": cdist,
                                                  "model_disagreements": None if cbad is None else len(cbad), "oracle_failures": len(cfails)}
    for ix, why in cfails[:3]:
        case, obs = ccases[ix]
        rep.violation("channel log (%s, sink %s): %s" % (case["stack"], case["sink"], why),
                      {"suite": "chan-log", "case": case, "observed": obs, "rerun": "./check C20 --replay <this file>"})
    if cbad is None:
        rep.broken.append("correspondence chan-log (model evaluation failed)")
        rep.notes.append(clog)
    elif cbad:
        failing = set(ix for ix, _ in cfails)
        for ix in [b for b in cbad if b not in failing][:3]:
            rep.broken.append("correspondence chan-log: model differs from implementation")
            rep.notes.append("chan-log disagreement: %s %s" % (json.dumps(ccases[ix][0])[:800], json.dumps(ccases[ix][1])[:800]))

    # 3b-r. reopen : 2-3 whole sessions on ONE driver object (open, login, operations, close, open again ...), a snapshot of the
    # destination after every close; the model (ChanReopen.reopen_run) is fed the observed open / read / close events up to each close
    n_re = 700 if thorough else 90
    rcases, rfails, rterms, rspan = [], [], [], []
    rdist = {"cases": 0, "combos": {}, "sinks": {}, "modes": {}, "sessions": {}, "drivers": {}, "silent_logins": 0, "bypass": 0, "with_previous_content": 0,
             "reads_in_later_sessions": 0, "later_sessions_with_login": 0, "reads_of_raising_operations": 0, "on_open": 0}
    for i in range(n_re):
        case = c20_reopen.gen_reopen_case(rng, i, gen_chunk)
        obs = c20_reopen.run_reopen_impl(case, rep.workdir)
        rcases.append((case, obs))
        rdist["cases"] += 1
        for key, val in (("combos", "%s/%s" % (case["stack"], case["transport"])), ("sinks", case["sink"]), ("modes", "append" if case["append"] else "write"),
                         ("sessions", len(case["sessions"])), ("drivers", case["driver"])):
            rdist[key][val] = rdist[key].get(val, 0) + 1
        rdist["silent_logins"] += sum(1 for x in case["sessions"] if x["fault"] == "silent")
        rdist["bypass"] += case["bypass"]
        rdist["on_open"] += bool(case["on_open"])
        rdist["with_previous_content"] += bool(case["existing"])
        later = obs["sessions"][1:]
        rdist["reads_in_later_sessions"] += sum(len(so["served"]) for so in later)
        rdist["later_sessions_with_login"] += 0 if case["bypass"] else len(later)
        rdist["reads_of_raising_operations"] += sum(1 for so in obs["sessions"] for _, loud in so["served"] if loud)
        rep.case(("reopen", json.dumps(case, sort_keys=True)), nontrivial=case["sink"] != "none" and any(so["served"] for so in later))
        why = c20_reopen.oracle_reopen(case, obs)
        if why:
            rfails.append((len(rcases) - 1, why))
        if not obs["exc"]:
            rspan.append(len(rcases) - 1)
            rterms.append(reopen_case_term(case, obs))
    rep.sample({"suite": "reopen", "case": rcases[0][0], "snapshots_after_each_close": [so["snapshot"] for so in rcases[0][1]["sessions"]]})
    rbad, rlog = common.eval_cases(rep.workdir, "cases_c20_reopen", REOPEN_HEADER, rterms, "chk", shard=200 if thorough else 30)
    rep.coverage["correspondence"]["reopen"] = {"cases": len(rcases), "model_terms": len(rterms), "distribution": rdist, "oracle_failures": len(rfails),
                                                "model_disagreements": None if rbad is None else len(set(rspan[b] for b in rbad))}
    seen_r = set()
    for ix, why in rfails:
        case, obs = rcases[ix]
        key = (case["stack"], "bytesio" if case["sink"].startswith("bytesio") else "file", case["append"] if case["sink"] in ("path", "true") else None)
        if key in seen_r or len(seen_r) >= 4:
            continue
        seen_r.add(key)
        small, sobs, swhy = c20_reopen.shrink_reopen(case, rep.workdir, why)
        rep.violation("re-opened driver object (%s %s driver, transport %s, channel_log %s%s, %d sessions): %s" % (
            small["stack"], small["driver"], small["transport"], small["sink"],
            ", %s mode" % ("append" if small["append"] else "write") if small["sink"] in ("path", "true") else "", len(small["sessions"]), swhy),
            {"suite": "reopen", "case": small, "observed": sobs,
             "expected_after_each_close": [None if w is None else w.hex() for w in c20_reopen.reopen_expected(small, sobs)],
             "rerun": "./check C20 --replay <this file>"})
    if rbad is None:
        rep.broken.append("correspondence reopen (model evaluation failed)")
        rep.notes.append(rlog)
    else:
        failing = set(ix for ix, _ in rfails)
        for ix in sorted(set(rspan[b] for b in rbad) - failing)[:3]:
            rep.broken.append("correspondence reopen: model differs from implementation")
            rep.notes.append("reopen disagreement: %s %s" % (json.dumps(rcases[ix][0])[:800], json.dumps(rcases[ix][1]["sessions"])[:800]))

    # 3c. session : channel + log file together (records produced by the hot path itself)
    n_sess = 1500 if thorough else 120
    scases, sterms, sfails = [], [], []
    sdist = {"cases": 0, "buffered": 0, "stacks": {}, "records": 0, "lazy_records": 0, "ends_on_read": 0, "uncapturable": 0,
             "logging_switched_on_after_open": {}, "late_reads_before_switch": 0, "late_reads_after_switch": 0, "late_switch_position": {},
             "late_debug_off_at_open": 0}
    for i in range(n_sess):
        stack = "sync" if i % 2 == 0 else "asyncio"
        case = gen_session_case(rng, stack)
        obs = run_session_impl(case, rep.workdir)
        scases.append((case, obs))
        sdist["cases"] += 1
        sdist["buffered"] += case["buffered"]
        sdist["stacks"][stack] = sdist["stacks"].get(stack, 0) + 1
        sdist["records"] += len(obs["records"])
        sdist["lazy_records"] += sum(1 for r in obs["records"] if r["args"])
        sdist["ends_on_read"] += bool(case["ops"]) and case["ops"][-1][0] in ("read", "get_prompt")
        if case.get("late"):
            at = [o[0] for o in case["ops"]].index("enable")
            sdist["logging_switched_on_after_open"][case["late"]["how"]] = sdist["logging_switched_on_after_open"].get(case["late"]["how"], 0) + 1
            ks = [k for k, _ in obs["events"]]
            after = ks[ks.index("enable") + 1:] if "enable" in ks else []
            sdist["late_reads_before_switch"] += ks[:len(ks) - len(after)].count("r")
            sdist["late_reads_after_switch"] += after.count("r")
            sdist["late_switch_position"]["first" if at == 0 else "last" if at == len(case["ops"]) - 1 else "between"] = \
                sdist["late_switch_position"].get("first" if at == 0 else "last" if at == len(case["ops"]) - 1 else "between", 0) + 1
            sdist["late_debug_off_at_open"] += obs["debug_enabled_at_open"] is False
        rep.case(("sess", json.dumps(case, sort_keys=True)), nontrivial=sum(1 for o in case["ops"] if o[0] == "read") >= 2)
        why = oracle_session(case, obs)
        if why:
            sfails.append((len(scases) - 1, why))
        if all(r["ok"] for r in obs["records"]):
            mc = {"buffered": case["buffered"], "append": False, "caller": case["caller"], "existing": None,
                  "recs": [dict(r, kind="captured") for r in obs["records"]]}
            sterms.append((len(scases) - 1, log_case_term(mc, obs, TMASK)))
        else:
            sdist["uncapturable"] += 1
    rep.sample({"suite": "session", "case": scases[0][0], "file": scases[0][1]["file"], "channel_log": scases[0][1]["sink"]})
    sbad, slog = common.eval_cases(rep.workdir, "cases_c20_sess", LOG_HEADER, [t for _, t in sterms], "chk", shard=150 if thorough else 30)
    rep.coverage["correspondence"]["session"] = {"cases": len(sterms), "distribution": sdist,
                                                 "model_disagreements": None if sbad is None else len(sbad), "oracle_failures": len(sfails)}
    seen = set()
    for ix, why in sfails:
        case, obs = scases[ix]
        key = (case["buffered"], bool(case.get("late")), why[:40])
        if key in seen or len(seen) >= 3:
            continue
        seen.add(key)
        if case.get("late"):        # fewer operations while it keeps failing the same way
            case, obs = shrink_session(case, obs, why, rep.workdir)
            why = oracle_session(case, obs) or why
        rep.violation("session (%s channel, %s handler%s): %s" % (case["stack"], "buffering" if case["buffered"] else "plain",
                                                                 ", logging switched on after open() by %s" % LATE_HOW[case["late"]["how"]] if case.get("late") else "", why),
                      {"suite": "session", "case": case, "observed": {k: obs[k] for k in ("file", "errors", "events", "sink", "exc", "results", "debug_enabled_at_open")},
                       "rerun": "./check C20 --replay <this file>"})
    if sbad is None:
        rep.broken.append("correspondence session (model evaluation failed)")
        rep.notes.append(slog)
    elif sbad:
        failing = set(ix for ix, _ in sfails)
        for b in sbad[:3]:
            ix = sterms[b][0]
            if ix in failing:
                continue
            rep.broken.append("correspondence session: model differs from implementation")
            rep.notes.append("session disagreement: %s %s" % (json.dumps(scases[ix][0])[:800], json.dumps(scases[ix][1])[:1500]))

    # 3c'. session-inputs : whole logged sessions whose INPUT TEXT is hostile to logging (%, %s, %d, %%, %(name)s, braces, backslashes) in
    #      every operation kind that announces the user's text (commands, configs, interactive incl. hidden, raw writes), real generic /
    #      network drivers over the simulated device, logging.raiseExceptions True and False (c20_inputs.py)
    n_inp = 720 if thorough else 72
    n_inp_model = 72 if thorough else 8
    icases, iterms, ifails = [], [], []
    idist = {"cases": 0, "stacks": {}, "drivers": {}, "raise_exceptions": {}, "buffered": 0, "records": 0, "op_kind_x_family": {}, "hidden_inputs": 0,
             "operations": 0, "operations_completed": 0, "inputs_with_percent": 0, "inputs_with_brace_or_backslash": 0, "model_cases": 0}
    for i in range(n_inp):
        case = c20_inputs.gen_inputs_case(rng, i)
        obs = c20_inputs.run_inputs_impl(case, rep.workdir)
        tcase, back = c20_inputs.tokenised(case)
        tobs = c20_inputs.run_inputs_impl(tcase, rep.workdir)
        icases.append((case, obs))
        idist["cases"] += 1
        for k, v in (("stacks", case["stack"]), ("drivers", case["kind"]), ("raise_exceptions", str(case["raise_exceptions"]))):
            idist[k][v] = idist[k].get(v, 0) + 1
        idist["buffered"] += case["buffered"]
        idist["records"] += len(obs["records"])
        idist["operations"] += len(case["ops"])
        idist["operations_completed"] += sum(1 for (n, r), _ in zip(obs["results"][1:], case["ops"]) if r is None)
        for kind, fam, text, hid in c20_inputs._visible_inputs(case):       # noqa
            key = "%s x %s" % (kind, fam)
            idist["op_kind_x_family"][key] = idist["op_kind_x_family"].get(key, 0) + 1
            idist["hidden_inputs"] += hid
            idist["inputs_with_percent"] += "%" in text
            idist["inputs_with_brace_or_backslash"] += any(c in text for c in "{}\\")
        rep.case(("inp", json.dumps(case, sort_keys=True)), nontrivial=any("%" in t for _, _, t, _ in c20_inputs._visible_inputs(case)))      # noqa
        why = c20_inputs.oracle_inputs(case, obs, (tcase, back, tobs))
        if why:
            ifails.append((len(icases) - 1, why))
        if len(iterms) < n_inp_model:
            # the handler model on the records of a SHORT session of the same kind (two of the operations: a whole session is some 150 records
            # of 100+ characters, too big a term for coqc); the full sessions are decided by the oracle
            mcase = dict(case, ops=case["ops"][i % 3:i % 3 + 2])
            mobs = c20_inputs.run_inputs_impl(mcase, rep.workdir)
            if all(r["ok"] and not (any(a[0] == "o" for a in r["args"]) and "%r" in r["msg"]) for r in mobs["records"]):
                mc = {"buffered": mcase["buffered"], "append": False, "caller": mcase["caller"], "existing": None,
                      "recs": [dict(r, kind="captured") for r in mobs["records"]]}
                iterms.append((len(icases) - 1, log_case_term(mc, dict(mobs, errors=max(mobs["errors"], mobs["handle_error_calls"])), TMASK)))
                idist["model_records"] = idist.get("model_records", 0) + len(mobs["records"])
    idist["model_cases"] = len(iterms)
    rep.sample({"suite": "session-inputs", "case": icases[0][0], "results": icases[0][1]["results"], "file_lines": icases[0][1]["file"].count("\n")})
    ibad, ilog = common.eval_cases(rep.workdir, "cases_c20_inp", LOG_HEADER, [t for _, t in iterms], "chk", shard=1)
    rep.coverage["correspondence"]["session-inputs"] = {"cases": len(iterms), "distribution": idist,
                                                        "model_disagreements": None if ibad is None else len(ibad), "oracle_failures": len(ifails)}
    seen = set()
    for ix, why in ifails:
        case, obs = icases[ix]
        key = (case["raise_exceptions"], why[:30])
        if key in seen or len(seen) >= 3:
            continue
        seen.add(key)
        case, obs, why = c20_inputs.shrink_inputs(case, rep.workdir, why)
        rep.violation("logged session with hostile input text (%s %s driver, %s handler, logging.raiseExceptions = %s; operations %s): %s" % (
            case["stack"], case["kind"], "buffering" if case["buffered"] else "plain", case["raise_exceptions"], json.dumps([o[:1] + o[2:] for o in case["ops"]])[:300], why),
                      {"suite": "session-inputs", "case": case,
                       "observed": {k: obs[k] for k in ("file", "errors", "handle_error_calls", "handle_error_templates", "events", "exc", "results")},
                       "unformattable_records": [{"template": r["msg"], "args": r["args"], "raised": r["format_raised"]} for r in obs["records"] if r["format_raised"]][:5],
                       "rerun": "./check C20 --replay <this file>"})
    if ibad is None:
        rep.broken.append("correspondence session-inputs (model evaluation failed)")
        rep.notes.append(ilog)
    elif ibad:
        failing = set(ix for ix, _ in ifails)
        for b in ibad[:3]:
            ix = iterms[b][0]
            if ix in failing:
                continue
            rep.broken.append("correspondence session-inputs: model differs from implementation")
            rep.notes.append("session-inputs disagreement: %s" % json.dumps(icases[ix][0])[:1500])

    rep.coverage["generated_from"] = common.source_hashes(SOURCES)
    rep.coverage["generated"] = {k: v for k, v in info.items()}
    rep.rule = ("log-seq: record sequences (lazy/eager reads, lazy writes, info, look-alike prefixes, %s/%r/%% templates; extras from "
                "get_instance_logger and every presence combination of host/port/uid; targets/modules/functions around the truncation bounds; "
                "payloads with quotes, %, CR/LF, ESC, NUL, non-UTF-8) + a malformed stream (bad templates, surrogates: model-vs-code only), "
                "through the handler enable_basic_logging installs (buffering / plain, write / append, caller_info on/off, close() / logging.shutdown), "
                "plus EVERY sequence of length <= 3 (thorough: 4) over six record shapes through the buffering handler; "
                "30 % of the log-seq cases draw their records from 2-4 loggers of ONE device (same host:port, different / no uid; empty host: uid-only "
                "and extras-free loggers) and every written line's target column must be that of its own record's extras; "
                "chan-log: read sequences with CR / ANSI / empty reads and public ops over a scripted transport, sync and asyncio, sinks path / True / BytesIO / off; "
                "driver: whole sessions through the real Driver.open / AsyncDriver.open (base and generic drivers; transports telnet, system, asynctelnet; "
                "auth_bypass on/off) over a scripted transport: banner + in-channel login dialogue (username/password; ssh password / passphrase / key) + motd + "
                "prompt + on_open + get_prompt / send_input / send_command / raw reads + close, also a device going silent inside the login and a refused login; "
                "sinks path / True / BytesIO / off, write / append, previous content; oracle: sink after close == every byte served from the first byte of the "
                "session, CRs removed; "
                "commandeer: driver A opens (sometimes through an in-channel telnet login) and reads, driver B (base / generic; channel_log the same "
                "destination as A's — same path, True on both, the same BytesIO —, a different one, or none; own write/append mode; optional on_open that "
                "reads) commandeers A, both objects read further in any interleaving, both are closed in either order; sync and asyncio; observers: the "
                "wire record tagged with the reading object and with WHICH configured destination is the open channel log of the reading channel at that "
                "read, every channel.open(), every destination after both closes; oracle: each configured destination holds what it kept from before the "
                "session (untouched / never created if nobody opened it) + exactly the reads it was the open log of, CRs removed, in order, once, and a "
                "connection that had a channel log keeps one after the commandeering; "
                "log-multi: 2-3 handler instances (own file, formatter, mode; buffering / plain) alive in one process, records either through the scrapli "
                "logger to every attached handler (one shared record object) or handed to chosen handlers in interleaved runs, handlers closed in the middle "
                "of the others' traffic and in every order, plus EVERY interleaving of length <= 3 (thorough: 4) of {read, info} x {handler 0, handler 1} "
                "with both close orders; oracle and model per file = those of ONE handler on the records that handler was given; "
                "log-mode: enable_basic_logging(mode=...) in EVERY casing of 'append' and 'write' (2^6 + 2^5 spellings), the usual spellings (lower, UPPER, "
                "Capitalized, cAPITALIZED) x {no file, empty file, three files with previous content} x {buffering, plain} in full, spellings with "
                "leading / trailing blanks (space, tab, newline, VT, FF, NBSP, EM SPACE) and 34 strings that are no mode; observers: the exception class "
                "and whether it is a scrapli error, the handlers left on the logger, whether the file exists and what it holds; oracle: a spelling that is "
                "write / append (case and blanks aside) is served correctly (append: previous content kept, then the records in order; write: starts "
                "empty) or refused cleanly, 'write' / 'append' themselves are served, no-mode strings are refused with a scrapli error, no handler, the file "
                "untouched / not created; "
                "reopen: 2-3 whole sessions on ONE driver object (open -> in-channel login -> on_open -> operations -> close -> open again ...; base and "
                "generic drivers; telnet, system, asynctelnet; sync and asyncio; a non-final session may go silent inside its login), channel_log configured "
                "once: path / True / io.BytesIO (closed by close()) / a BytesIO that survives close() / off, write and append mode, previous content; "
                "observers: wire record per session tagged with the operation that read it and whether that operation raised, every channel.open() / "
                "close(), a snapshot of the destination after EVERY close; oracle per session: append = previous snapshot + the bytes served in the "
                "session, CRs removed; write = the bytes served in this session alone; BytesIO = previous snapshot + the reads of the operations that "
                "completed (a read may fail loudly on a closed log object, it may not vanish); no handle left open, open() / close() do not raise; "
                "size families (log-seq): payloads of 2^k + d bytes, k = 10..18 (1 KiB .. 256 KiB), d = -1, 0, 1, the size taken as the length of the "
                "bytes or as the length of their repr (the text the handler buffers); big lazy reads, big eager reads, big lazy writes and big info "
                "messages mixed with small reads / writes / infos in 20 fixed shapes (small read(s) directly before a big read, big first, big after a "
                "write, two big ones, big non-read record between reads, ...) taken in rotation over the 27 size points (thorough: 5 rounds), plus random "
                "small/big shapes; every payload starts with a tag naming its record, so a swap or a loss cannot cancel out; same oracle (every message in "
                "order, runs of reads coalesced into the concatenated payload), all cases; the model evaluates the cases up to 16 KiB + 1, one per power "
                "above and the small random ones (thorough: every periodic one); a failing case is shrunk by records, then by bisection on the payload lengths; "
                "session: channel + log file together; in 45 % of the sessions logging is switched on AFTER channel.open() — before the first operation, "
                "between two operations (inside runs of reads too) or after the last — by enable_basic_logging(level='debug') on the open connection "
                "(nothing installed before; scrapli logger at NOTSET / INFO / WARNING), by logging.getLogger('scrapli').setLevel(DEBUG) or by "
                "getLogger('scrapli.channel').setLevel(DEBUG) with the file handler installed from the start at INFO .. CRITICAL; the moment is marked in "
                "the wire record; oracle: the reads / writes in the file are exactly those on the wire from that moment on, in order; the writes and the "
                "send_input commands of these sessions draw their text from the hostile-input families (below), logging.raiseExceptions on / off; "
                "session-inputs: whole logged sessions (enable_basic_logging at debug, buffering / plain, caller_info on / off) through the real "
                "GenericDriver / IOSXEDriver (sync and asyncio) over the simulated device, EVERY operation kind that announces the user's text — "
                "send_command(s), send_config(s), send_interactive and channel.send_inputs_interact (normal and hidden events, expected responses "
                "with % too), channel.send_input, channel.send_input_and_read (expected_outputs), raw channel.write (redacted or not) — crossed in "
                "rotation with the input families plain, lone %, %s, %d / %5.2f / %r / %c, %%, %(name)s, braces, backslashes, mixtures (9 kinds x 9 "
                "families, all hit in 72 cases), logging.raiseExceptions True and False; observers: wire record, the file, a capturing handler that asks "
                "every emitted record for its message, the calls of Handler.handleError (counted even when raiseExceptions is off), stderr; oracle: no "
                "record's getMessage() raises, none goes to handleError, reads / writes of the file == wire (hidden as REDACTED, hidden text in no "
                "message), one file line per emitted record in order (level, read / other; reads coalesced when buffering), and substitution: every "
                "message that mentions an input in the same session typed with plain tokens is in this session's file with the token replaced by "
                "the text, in order. non-trivial = (log) >= 2 records with a read, (chan) a sink and a CR or ESC served, "
                "(driver) a sink, a login in the channel and >= 2 reads, (commandeer) a sink and reads through both objects, (log-multi) >= 2 records with a read, "
                "(log-mode) a spelling other than 'write' / 'append' on a file with content, (reopen) a sink and reads in a later session, "
                "(session) >= 2 reads, (session-inputs) an input with a % sign; distinct = the whole case")
    shutil.rmtree(os.path.join(rep.workdir, "tmp"), ignore_errors=True)


def _abbr(t, keep=90):
    return t if len(t) <= 2 * keep + 20 else "%s ...[%d characters]... %s" % (t[:keep], len(t) - 2 * keep, t[-keep:])


def replay(path):
    r = json.load(open(path))
    case = r.get("case")
    if not case:
        print("nothing to replay (no concrete input): %s" % r.get("what"))
        return 1
    common.setup_env()
    wd = os.path.join(common.BUILD, "C20")
    os.makedirs(wd, exist_ok=True)
    suite = r.get("suite")
    if suite == "log-seq":
        asctime = _asctime()
        obs = run_log_impl(case, wd)
        why = oracle_log(case, obs, asctime)
        print("records:")
        for rd in case["recs"]:
            m = (rd["msg"] % _args(rd)) if rd["args"] else rd["msg"]
            print("   %s %% %s  extra=%r%s" % (_abbr(repr(rd["msg"])), _abbr(repr(_args(rd))), rd["extra"], "   [message: %d characters]" % len(m) if len(m) >= 128 else ""))
        print("handler: %s, mode: %s, closed by: %s" % ("ScrapliFileHandler" if case["buffered"] else "FileHandler", "append" if case["append"] else "write", case["close"]))
        print("file:\n" + "".join(_abbr(ln) + "\n" for ln in obs["file"].split("\n")[:-1]) + _abbr(obs["file"].split("\n")[-1]))
        if max([len(ln) for ln in obs["file"].split("\n")]) > 200:
            print("expected messages, in this order:")
            for _, m in expected_entries(case):
                print("   " + _abbr(m))
        print("stderr errors: %d %s  escaped: %r" % (obs["errors"], obs["stderr_tail"][-200:].replace("\n", " / "), obs["escaped"]))
        if why and why_read_order(case, obs):
            print(why_read_order(case, obs))
        for ln, shown, own, ex in target_mismatches(case, obs, asctime):
            print("line %d: target column %r, but its record was emitted with extras %r (own target %r)" % (ln, shown, ex, own))
    elif suite == "chan-log":
        obs = run_chan_impl(case, wd)
        why = oracle_chan(case, obs)
        print("chunks:", [bytes.fromhex(c) for c in case["chunks"]], "sink kind:", case["sink"])
        print("channel log:", None if obs["sink"] is None else bytes.fromhex(obs["sink"]))
        print("served     :", bytes.fromhex(obs["served"]))
    elif suite == "driver":
        obs = c20_driver.run_driver_impl(case, wd)
        why = c20_driver.oracle_driver(case, obs)
        print("%s driver (%s), transport %s, auth_bypass %s, channel_log sink %s (%s mode), on_open %r, ops %r" % (
            case["stack"], case["driver"], case["transport"], case["bypass"], case["sink"], "append" if case["append"] else "write", case["on_open"], case["ops"]))
        print("session as the scripted transport and the channel saw it (open = BaseChannel.open()):")
        for k, c in obs["events"]:
            print("   %-6s %r" % (k, bytes.fromhex(c)))
        print("results:", [(a, b if b in (None, "Starved") or a in ("open", "close") else "<bytes>") for a, b in obs["results"]])
        print("channel log after close:", None if obs["sink"] is None else bytes.fromhex(obs["sink"]))
        print("served (CRs removed)   :", bytes.fromhex(obs["served"]).replace(b"\r", b""))
    elif suite == "log-multi":
        asctime = _asctime()
        obs = run_multilog_impl(case, wd)
        bad_file = oracle_multilog(case, obs, asctime)
        why = bad_file and "file %d: %s" % bad_file
        print("%d handlers in one process; records %s" % (len(case["handlers"]), "go through the scrapli logger to every handler still attached"
                                                          if case["route"] == "logger" else "are handed to the handlers listed with them"))
        for ev in case["events"]:
            if ev[0] == "close":
                print("   close handler %d" % ev[1])
            else:
                print("   %r %% %r  extra=%r  -> handler(s) %s" % (ev[1]["msg"], _args(ev[1]), ev[1]["extra"], "all" if case["route"] == "logger" else ev[2]))
        for k, hc in enumerate(case["handlers"]):
            print("file %d (%s, mode %s, closed by %s):\n%s" % (k, "ScrapliFileHandler" if hc["buffered"] else "FileHandler",
                                                               "append" if hc["append"] else "write", hc["close"], obs["files"][k] if k < len(obs["files"]) else ""))
            w = oracle_log(multi_subcase(case, k), multi_subobs(obs, k), asctime)
            print("   -> %s" % ("holds exactly the records handler %d was given" % k if w is None else "WRONG: " + w))
        print("stderr errors: %d  escaped: %r" % (obs["errors"], obs["escaped"]))
    elif suite == "commandeer":
        obs = c20_driver.run_cmd_impl(case, wd)
        why = c20_driver.oracle_cmd(case, obs)
        print("%s drivers A (%s, channel_log %s, %s mode) and B (%s, channel_log %s, %s mode), transport %s; previous content %r" % (
            case["stack"], case["driver_a"], case["sink_a"], "append" if case["append_a"] else "write", case["driver_b"], case["sink_b"],
            "append" if case["append_b"] else "write", case["transport"], {k: bytes.fromhex(v) for k, v in case["existing"].items()}))
        print("A.open(); %r through A; B.commandeer(A) (on_open of B: %r); %r; close %s" % (
            [i["op"] for i in case["pre"]], [i["op"] for i in case["on_open_b"]] if case["execute_on_open"] else [],
            [(i["who"], i["op"]) for i in case["post"]], " then ".join(case["close"])))
        print("events (r = transport read: through which driver, bytes, which configured destination was the open channel log of the reading channel):")
        for k, who, c, lab in obs["events"]:
            print("   %-9s %s %r %s" % (k, who, bytes.fromhex(c), "" if k not in ("r", "open", "cmd", "left-open") else "-> %s" % lab))
        print("results:", [(a, b if b in (None, "Starved") or a in ("open", "close", "commandeer") else "<bytes>") for a, b in obs["results"]])
        want = c20_driver.cmd_expected(case, obs)
        for dest in sorted(obs["sinks"]):
            print("destination %-9s holds %r" % (dest, None if obs["sinks"][dest] is None else bytes.fromhex(obs["sinks"][dest])))
            print("            should hold %r" % (want.get(dest),))
    elif suite == "log-mode":
        asctime = _asctime()
        obs = run_log_impl(case, wd)
        why = oracle_mode(case, obs, asctime)
        m = mode_meaning(case["mode"])
        print("previous content of the log file: %r" % (case["existing"],))
        print("enable_basic_logging(file=<the file>, buffer_log=%r, mode=%r)   [the spelling means: %s]" % (
            case["buffered"], case["mode"], {None: "no mode", True: "append", False: "write"}[m]))
        if obs["setup_exc"]:
            print("   raised %s (a scrapli error: %s); handlers left on the logger: %d" % (obs["setup_exc"], obs["setup_scrapli"], obs["left_handlers"]))
        print("records:")
        for rd in case["recs"]:
            print("   %r %% %r  extra=%r" % (rd["msg"], _args(rd), rd["extra"]))
        print("file afterwards%s:\n%s" % ("" if obs["file_exists"] else " (does not exist)", obs["file"] if obs["file_exists"] else ""))
    elif suite == "reopen":
        obs = c20_reopen.run_reopen_impl(case, wd)
        why = c20_reopen.oracle_reopen(case, obs)
        want = c20_reopen.reopen_expected(case, obs)
        print("ONE %s driver object (%s), transport %s, auth_bypass %s, channel_log %s (%s mode), previous content %r, on_open %r" % (
            case["stack"], case["driver"], case["transport"], case["bypass"], case["sink"], "append" if case["append"] else "write",
            bytes.fromhex(case["existing"]) if (case["has_existing"] or case["sink"].startswith("bytesio")) else None, case["on_open"]))
        for j, so in enumerate(obs["sessions"]):
            print("session %d: open(); %r; close()" % (j + 1, case["sessions"][j]["ops"]))
            for k, sj, c, n in obs["events"]:
                if sj == j and k in ("open", "r", "close"):
                    print("   %-6s %s" % ({"open": "chan.open", "close": "chan.close", "r": "read"}[k], repr(bytes.fromhex(c)) if k == "r" else ""))
            print("   results:", [(a, b if (l or b in (None, "Starved") or a in ("open", "close")) else "<bytes>") for a, b, l in so["results"]])
            print("   channel log after this close:", None if so["snapshot"] is None else bytes.fromhex(so["snapshot"]))
            print("   should hold                 :", want[j])
    elif suite == "session":
        obs = run_session_impl(case, wd)
        why = oracle_session(case, obs)
        print("ops:", case["ops"])
        if case.get("late"):
            print("logging before channel.open(): %s; the step 'enable' is %s; from then on every read / write of the session belongs in the file" % (
                "nothing installed, scrapli logger level %s" % logging.getLevelName(case["late"]["level_before"]) if case["late"]["how"] == "basic" else
                "enable_basic_logging(level=%r)" % logging.getLevelName(case["late"]["level_before"]).lower(), LATE_HOW[case["late"]["how"]]))
            print("channel logger enabled for DEBUG right after open():", obs["debug_enabled_at_open"])
        print("file:\n" + obs["file"])
        print("wire:", [(k, bytes.fromhex(c)) for k, c in obs["events"]])
    elif suite == "session-inputs":
        obs, why = c20_inputs.run_and_judge(case, wd)
        print(c20_inputs.describe(case, obs))
    else:
        print("unknown suite %r" % suite)
        return 1
    print("property holds on this input" if why is None else "property FAILS on this input: %s" % why)
    return 0 if why is None else 1


MANIFEST = {
    "text": "Coq theorems (props/C20.v, axiom-free, Print Assumptions recorded): file_log_complete — for EVERY formatter configuration, previous "
            "file content, write/append mode and EVERY sequence of log records (eager or lazily %-formatted, any args, any presence combination of "
            "host/port/uid, malformed ones included) followed by close, the file written by the model of ScrapliFileHandler is the previous content "
            "(append) plus one line per group of the loggable records numbered from 1, where [groups] is proved to be the partition of the session into "
            "maximal runs of consecutive read messages (one line: 'read : ' + repr of the concatenated payloads, no byte lost or reordered) and single other "
            "records; every malformed record goes to handleError exactly once and nothing stays pending; repr of bytes is proved invertible for every byte "
            "string, so the coalesced line determines the concatenated payload exactly; plain_log_complete for logging.FileHandler; "
            "format_total — whichever of host/port/uid are present formatting does not raise, the target column is <= 25 wide, a target that fits is shown "
            "in full, the message ends its line verbatim; channel_log_exact — for every read sequence, ANSI stripper, sink kind and previous content the sink "
            "holds the bytes read with CRs removed, in order, once, independent of segmentation; whole_session_exact — when BaseChannel.open() is the first "
            "channel-level event of a session the sink holds every byte read from the first byte on (banner, login dialogue, motd, outputs), and "
            "late_open_loses / late_open_refuted — reads made before channel.open() never reach the log, so that order falsifies the statement. The pinned commit's three defects (template slicing of "
            "lazy records, no flush at close, AttributeError for host without port) are refuted by vm_compute witnesses next to the partial statement that "
            "was true of the formatter; they are fixed in the source and the full statements are proved of the model of the fixed code. "
            "Tie: Gen_Log.v regenerated from the source on every run (format strings parsed with string.Formatter, integer/string literals of formatMessage, "
            "header record, read prefixes, the f-string of emit_buffered, statement order of Channel.read/AsyncChannel.read, call sites of transport.read "
            "in the channel AND driver modules, statement order of Driver.open / AsyncDriver.open — channel.open() before the in-channel logins and on_open —, "
            "hot-path log templates, defaults) with obligations decided by vm_compute; correspondence of the models (vm_compute) against the real handlers "
            "installed by enable_basic_logging, the real formatter, the real sync/asyncio channels and whole sessions through the real Driver.open / "
            "AsyncDriver.open (telnet, system, asynctelnet; login in the channel; the model is fed the OBSERVED order of channel.open() and the reads) on the "
            "same generated inputs; independent oracles (CPython's own % and repr; literal_eval of the logged payloads against the scripted transport's "
            "wire record; channel-log sink after close == every byte served during the whole session, CRs removed; every written line's target column "
            "is that of its own record's host/port/uid extras, for loggers sharing host:port and differing in uid). "
            "Commandeered sessions (Driver.commandeer / AsyncDriver.commandeer: B takes A's transport and A's OPEN channel log object, B's own channel_log is "
            "never opened): the connection-level model (whole_session_exact: A's sink, every read of the connection whichever object made it) is compared "
            "with A's destination, and an independent oracle decides every configured destination (same / different / no channel_log on B; path, True, BytesIO) "
            "from the wire record and the observed open log of the reading channel. Several handler instances in one process (2-3 files, interleaved and "
            "broadcast record sequences, closes in the middle): every file is checked against the one-handler model and the one-handler oracle on the records "
            "that handler was given. "
            "One driver object opened again after close (model ChanReopen.v: the destination outlives the handles; channel_log is none / open / closed; "
            "open() opens a file destination anew — truncated in write mode — and takes a BytesIO as it is, closed or not): reopen_append_exact — after any "
            "number of whole sessions an append-mode file holds its previous content + every byte of every session; reopen_write_last — a write-mode file holds "
            "the last session, whole; reopen_bytesio_kept_open_exact; reopen_full is REFUTED for io.BytesIO proper (close() closes the caller's object: opened "
            "again every read raises ValueError — reopen_bytesio_closed_loud) and reopen_nothing_silent is what holds for every destination: each read of each "
            "session is logged or raises, none vanishes; reopen_skip_if_set_refuted shows the theorem notices 'set the log up only once, skip a closed log'. "
            "The mode argument (LogHandler.mode_of / run_basic): mode_spelling — a string means append / write iff its lower-cased form is 'append' / 'write', "
            "anything else is refused before a handler exists; mode_append_keeps_previous — in every casing of 'append', both handlers, the file is its "
            "previous content followed by what the same records give on an empty file; mode_write_starts_empty; mode_raw_lookup_refuted shows that choosing the "
            "file mode from the raw spelling is noticed. Both models are run (vm_compute) against the real code: log-mode cases against enable_basic_logging "
            "(accepted / refused, file, error counts), re-open histories against the real drivers session by session (observed open / read / close events, "
            "the snapshot after each close, the number of reads of raising operations). "
            "Record sizes: the log-seq correspondence and oracle also run on size families — payloads of 2^k + d bytes (k = 10..18, d = -1, 0, 1, measured "
            "raw and as repr) in runs mixing small and big reads, writes and info messages; file_log_complete is size-independent (any byte lists), "
            "the correspondence ties that to the code for records up to 256 KiB. Sessions where logging is switched on after channel.open() "
            "(enable_basic_logging / setLevel(DEBUG) on the scrapli or the channel logger, before / between / after the operations): from that moment "
            "every read and write on the wire is in the file, in order. "
            "Hostile input text (suite session-inputs + the writes / send_input of the session suite): commands, configs, interactive inputs "
            "(hidden ones too) and raw writes containing %, %s, %d, %%, %(name)s, braces and backslashes are sent through the real drivers / channels "
            "with the log file on, logging.raiseExceptions True and False: no emitted record's formatting raises, none reaches handleError, every "
            "write is in the file byte for byte in its repr, the file has one line per emitted record, and the messages that mention the input are "
            "those of the same session typed with plain tokens, token for text. "
            "The translator discovers the handler's attribute names from emit / emit_buffered (the prefix the message is tested "
            "against, the cut of the payload, the attributes they write, the f-string assigned to .msg) instead of assuming them.",
    "note": "Proved of the hand-written Gallina models (LogHandler.v, LogFormat.v, ChanLog.v); the models are tied to the code by the correspondence run and the "
            "regenerated obligations only (partial: the runtime is observed on generated cases, not proved). Modelled rather than verified: logging.LogRecord.getMessage "
            "(%r %s %% only; other conversions are modelled as raising), bytes/str repr (str repr exact below code point 256), str.encode, StreamHandler.emit/handleError, "
            "the file as the text handed to the stream (its encoding, exc_info text, emits after close, several handlers on one logger, threads are outside the model); "
            "asctime is an input. The ANSI stripper is a function parameter of the channel model (any function). Observed only: file objects / BytesIO / open modes, "
            "logging.shutdown, that every public channel operation reads through read() (ast fact + session suite). "
            "Oracle-only (outside the Coq models): which channel operations Driver.open performs and the login dialogue itself (patterns, counters, what is "
            "written) — the session model has only the events channel.open() / read, the driver suite observes their order and the ast fact fixes it in the "
            "source; the transports' own open/read/write/close are replaced by a script (asyncio sessions run on a virtual-time event loop so that the "
            "login loop's sleep(0.1) costs nothing); attribution of a log line to its logger is decided by the oracle on the file (the formatter model is "
            "a pure function of the record's extras, so a formatter with memory is reported by the correspondence as well). "
            "Oracle-only as well: commandeer itself — the Coq model has one log per connection and no notion of two driver objects; which object's sink is "
            "the open log of a read is OBSERVED (channel.channel_log of the reading channel mapped to the configured destinations), that B's own destination "
            "stays untouched / uncreated and that nothing written before the commandeering is lost are decided by the oracle on the files / BytesIO values "
            "after both closes; handles left open after both closes are closed by the harness before the files are read. Independence of handler instances "
            "is by construction in the model (its state is per handler): the log-multi suite ties it to the code by running the one-handler model per file; "
            "state shared between instances shows as a per-file disagreement and oracle failure. In the logger-routed log-multi cases the records carry host "
            "and port: a record without host is completed (host = port = '') by the first ScrapliFormatter that formats it, so a second handler's formatter "
            "shows ':' in the target column where the first showed '' (layout, outside the property; seen on the unchanged tree). "
            "Re-open histories: the model has the channel-level events only (open / read / close); that Driver.close() closes the channel log, which "
            "operations read, the login dialogue and a login going silent are oracle-only / observed. On the unchanged tree a plain io.BytesIO channel_log "
            "cannot log a second session of the same driver object (BaseChannel.close() closes the caller's object, the next read raises ValueError: I/O "
            "operation on closed file): the oracle accepts a read that fails loudly and rejects one that vanishes, the Coq statement is the refuted "
            "reopen_full + reopen_bytesio_closed_loud. In write mode every open() truncates the file, so after a re-open it holds the last session only: "
            "that is what 'write' is taken to mean (the oracle checks the snapshot after every close, so no session is unobserved). "
            "Size families: every case goes through the real handler and the oracle; the model (vm_compute) evaluates a SAMPLE of the big ones in the "
            "quick tier (all cases up to 16 KiB + 1, one case per power of two above, the small random mixes; thorough: all periodic ones) — a list "
            "literal of 64 KiB does not get through coqc, so long periodic strings (payloads AND the observed file) are handed to Coq run-length "
            "encoded without loss (`rp n block`, decoded by N.iter inside Coq; _compact in the harness) and the big payloads are a tag + a periodic "
            "fill; the cases with random (non-periodic) big payloads are oracle-only. The oracle's regex is evaluated with '.{n}' + string equality in "
            "the place of literal messages of >= 2048 characters (match_log; falls back to the literal regex whenever that is not conclusive). "
            "Late logging: WHICH reads produce a record (logger levels, isEnabledFor, the moment logging is switched on) is outside the Coq models — "
            "the handler model is fed the records the scrapli logger handed to its handlers; that every read after the switch produces one is "
            "oracle-only (wire record from the marked moment on against the parsed file). "
            "Hostile input text: WHICH records an operation emits and what template / arguments it gives them (the call sites of logger.info in "
            "send_input, send_input_and_read, send_inputs_interact, write) are outside the Coq models — the handler model (file_log_complete: a record "
            "whose %-formatting fails goes to handleError once and is not written) is fed the records as emitted; that the library's own records are "
            "well-formed for EVERY user text is decided by the oracle only (getMessage() of each captured record, handleError call count, one line per "
            "record, substitution against the plain-token run of the same session). The model is run on the records of SHORT sessions of that suite "
            "(two operations each, 8 per quick run / 72 thorough; a whole session is ~150 long records, too big a term); non-str arguments whose "
            "str() == repr() (bool, None, numbers, lists of str) are handed to the model as the text they print with %s. The device of that suite "
            "is harness/simdevice.SimDevice plus question / answer dialogues; it echoes hidden inputs too, so the 'hidden text in no message' "
            "check skips the read lines. The substitution oracle compares only the messages that mention an input (what the driver does may "
            "depend on the text, e.g. privilege detection on a prompt-like echo). "
            "Mode spellings: str.lower / str.strip are modelled on code points with A-Z only (no other character lower-cases to a letter of 'write' / "
            "'append'); the unchanged tree refuses spellings with surrounding blanks, which the oracle allows (refused cleanly) as well as serving them; "
            "non-str modes are outside the typed signature and not generated.",
    "technique": "Coq proof by induction over the record sequence with a ghost pending-group invariant (left-to-right handler vs right-fold partition), by-computation "
                 "obligations over regenerated definitions, vm_compute correspondence against the real handlers/formatter/channels (sync + asyncio) with independent oracles",
}
