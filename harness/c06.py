"""C06 — sync and asyncio drivers behave identically.

proof   : coq/proofs/Twins_Proofs.v — soundness of the twin-table decision procedures (public attribute
          tables, normalised token streams against the committed difference list), the normaliser against
          its declarative reading, and for the in-channel login loops: auth_stutter_invariant and
          login_sync_eq_async (for ALL pattern predicates that reject the empty buffer, ALL event lists).
tie     : Gen_Twins.v regenerated from the source on every run (inspect + ast + tokenize), obligations
          decided by vm_compute in props/C06.v; the login model is run by vm_compute on the same event lists
          as the real channel_authenticate_telnet/_ssh of both stacks.
observed: paired scenarios through the real sync and asyncio driver stacks over SimDevice (incl. multi-event
          interactive dialogues, c06_pairs.DialogDevice), the two real Telnet transports over scripted sockets, and
          three runtime probes — compared with each other directly.  Lists with repeated entries under eager on/off
          (send_commands / send_configs / send_config / *_from_file) and per-call timeout_ops x device latency in scripted
          time (c06_pairs.VClock / VirtualLoop: the real timeout decorators of both stacks run, nothing sleeps) are two of
          the scenario families; the error-path family (c06_pairs.gen_error_scenario: failed escalation with a wrong / empty /
          missing secondary password against devices that re-prompt, refuse or hang; refused / ignored / unanswered
          de-escalation; failing on_open / on_close hooks; timeout_ops armed so that silence ends in the real operation
          timeout) compares exception type + message class + explicit cause chain, bytes written and the state afterwards.
          Round 7 families: send_and_read / channel.send_input_and_read with expected_outputs drawn from plain text,
          text with regex metacharacters and real patterns against streaming answers (c06_pairs.gen_and_read_scenario);
          escape sequences in the device's stream x the chunking policy "esccut" that cuts inside every sequence
          (c06_pairs.EscChunker / gen_ansi_scenario); two-object histories per platform driver — a default privilege level
          of a first object edited in place, then a second object constructed and used — compared between the stacks AND
          against the isolation expectation (c06_pairs._run_sync_one / _isolation).
          Round 9 family with_open: `with drv:` / `async with drv:` (op ["with", body], c06_pairs._run_with / gen_with_scenario)
          x refused / hanging in-band login, failing transport open, failing escalation in on_open, failing user hooks, a set-up
          line that hangs with the timeout armed, healthy — exception type + message class + cause chain of __enter__ / __exit__,
          bytes, state afterwards, later operations and re-entered blocks.
          A broken twin-diff obligation for function F makes focus_search run the scenario
          families that exercise F (c06_pairs.FN_FAMILY) with extra seeds."""
import asyncio
import json
import os
import socket
import warnings

from . import common
from .common import coq_bool, coq_bytes, coq_list

LEVEL = "proof"
SOURCES = [
    "scrapli/channel/sync_channel.py", "scrapli/channel/async_channel.py",
    "scrapli/driver/base/sync_driver.py", "scrapli/driver/base/async_driver.py",
    "scrapli/driver/generic/sync_driver.py", "scrapli/driver/generic/async_driver.py",
    "scrapli/driver/network/sync_driver.py", "scrapli/driver/network/async_driver.py",
    "scrapli/transport/plugins/telnet/transport.py", "scrapli/transport/plugins/asynctelnet/transport.py",
    "scrapli/decorators.py",
] + ["scrapli/driver/core/%s/%s_driver.py" % (p, s)
     for p in ("cisco_iosxe", "cisco_iosxr", "cisco_nxos", "arista_eos", "juniper_junos") for s in ("sync", "async")]

ALLOWED = os.path.join(os.path.dirname(os.path.abspath(__file__)), "c06_allowed.json")

SIG_TELNET_LIMIT = "c06-telnet-more-than-limit-negotiation-commands"
SIG_TELNET_OPEN = "c06-telnet-open-failure-exception-class"


# ------------------------------------------------------------------------------------------------
# structural part
# ------------------------------------------------------------------------------------------------
NAMES_HEADER = """From Verif Require Import Bytes Twins.
From Gen Require Import Gen_Twins.
Definition nl (l : list bytes) : bytes := concat (map (fun n => n ++ [10]) l).
"""


def _eval_names(rep, name, term):
    """names (one per line) computed by the model's witness mode"""
    out = common.eval_term(rep.workdir, name, NAMES_HEADER, "nl (%s)" % term)
    ix = common.parse_nat_list(out)
    if ix is None:
        return None
    return [x for x in bytes(ix).decode("utf8", "replace").split("\n") if x]


def _attr_diff(s_, a_):
    if s_ is None or a_ is None:
        return "missing on the %s class" % ("sync" if s_ is None else "asyncio")
    if s_[0] != a_[0]:
        return "kind %r vs %r" % (s_[0], a_[0])
    ps, pa = list(s_[2]), list(a_[2])
    out = []
    for i in range(max(len(ps), len(pa))):
        x = ps[i] if i < len(ps) else None
        y = pa[i] if i < len(pa) else None
        if x != y:
            out.append("parameter %d: sync %r vs asyncio %r (name, kind, default)" % (i, x, y))
    return "; ".join(out) or "coroutine-ness"


def structural(rep):
    from gen import gen_twins
    info = {}
    try:
        _, info = gen_twins.generate(rep.workdir, common.REPO)
        rc, out, _ = common.coqc(os.path.join(rep.workdir, "Gen_Twins.v"), rep.workdir)
        if rc:
            rep.broken.append("Gen_Twins.v")
            rep.notes.append(out[-2000:])
    except Exception as e:  # translator aborted: broken tie
        rep.broken.append("gen_twins:%s" % e)
    ok, _ = rep.build_static()
    rep.add_static_obligations("props/C06.v", ok)
    if not ok:
        rep.broken.append("static-build")
    focus = []
    if ok and not rep.broken:
        pok, _ = rep.compile_props("props/C06.v")
        # witness mode (always evaluated: the lists must be empty when the obligations hold)
        bad_m = _eval_names(rep, "wit_meths", "map (fun p => fst p ++ [46] ++ snd p) (failing_meths gen_classes)")
        bad_f = _eval_names(rep, "wit_fns", "failing_fns gen_drop gen_rename gen_allowed gen_funcs")
        stale = _eval_names(rep, "wit_stale", "stale_allowed gen_drop gen_rename gen_allowed gen_funcs")
        if bad_m is None or bad_f is None or stale is None:
            rep.broken.append("twin witness evaluation failed")
            bad_m, bad_f, stale = bad_m or [], bad_f or [], stale or []
        tables = info.get("class_tables", {})
        seen_sig = set()
        for cm in bad_m:
            cls, attr = cm.split(".", 1)
            t = None
            for sc, tt in tables.items():
                if cls in (sc, tt.get("async_name")):
                    t = tt
            s_ = t["sync"].get(attr) if t else None
            a_ = t["async"].get(attr) if t else None
            if (attr, _attr_diff(s_, a_)) in seen_sig:     # inherited by several class pairs: report once
                continue
            seen_sig.add((attr, _attr_diff(s_, a_)))
            rep.violation("public attribute %s differs between the twins: %s" % (cm, _attr_diff(s_, a_)),
                          {"suite": "twin-signatures", "class": cls, "attr": attr, "sync": s_, "async": a_,
                           "rerun": "./check C06 --replay <this file>"})
        for fn in bad_f:
            focus.append(fn)
            rep.notes.append("twin function %s differs outside the committed difference list: hash %s, hunks %s" % (
                fn, info.get("hashes", {}).get(fn), json.dumps(info.get("hunks", {}).get(fn))[:1500]))
            rep.broken.append("twin-diff:%s" % fn)
        for fn in stale:
            rep.broken.append("stale entry in c06_allowed.json: %s" % fn)
        if not pok and not (bad_m or bad_f or stale) and not rep.broken:
            rep.broken.append("props/C06.v")
    cov = {k: info.get(k) for k in ("functions", "identical", "differ", "only_one_side", "classes", "tokens")}
    try:
        al = json.load(open(ALLOWED))["functions"]
        cov["allowed_list"] = {k: v["class"] for k, v in al.items()}
    except Exception as e:  # noqa
        cov["allowed_list"] = "unreadable: %s" % e
    rep.coverage["generated"] = cov
    rep.coverage["generated_from"] = common.source_hashes(SOURCES)
    return info, focus


# ------------------------------------------------------------------------------------------------
# login loops: model correspondence + oracle
# ------------------------------------------------------------------------------------------------
LOGIN_HEADER = """From Verif Require Import Bytes Twins.
From Gen Require Import Gen_Twins.
Definition ev := (N * bytes * bool)%type.
Definition to_lev (e : ev) : lev :=
  let '(t, b, k) := e in if t =? 0 then LData b k else if t =? 1 then LExpire k else LErr.
Definition norm_code (o : lout) : N := let c := lout_code o in if (1 <=? c) && (c <=? 3) then 1 else c.
Definition chk (c : bool * bool * (bytes * bytes * bytes) * (bytes * bytes) * list ev * N * list bytes) : bool :=
  let '(telnet, sync, (p1, p2, pp), (a1, a2), evs, code, writes) := c in
  let catch := if sync then gen_sync_login_catches else gen_async_login_catches in
  let cfg := lit_cfg p1 p2 pp a1 a2 [10] telnet (telnet && catch) in
  let l := map to_lev evs in
  let (o, w) := lrun cfg l_init (if sync then sync_view l else l) in
  (norm_code o =? code) && lbeq w writes.
"""
CODES = {"ok": 0, "ScrapliAuthenticationFailed": 1, "ScrapliConnectionError": 4, "Starved": 5}

PATSETS = [("login:", "password:", "r1#"), ("username:", "password:", "sw>"), ("a", "ab", "b"), ("in:", "n:", "#")]


def _ev_term(e):
    if e[0] == "data":
        # the model's events are results of Channel.read(), which drops "\r" from the transport's bytes
        return "(0, %s, %s)" % (coq_bytes(e[1].replace(b"\r", b"")), coq_bool(e[2]))
    if e[0] == "expire":
        return "(1, [], %s)" % coq_bool(e[1])
    return "(2, [], false)"


def login_case_term(kind, sync, pats, ans, evs, res):
    return "(%s, %s, (%s, %s, %s), (%s, %s), %s, %d, %s)" % (
        coq_bool(kind == "telnet"), coq_bool(sync),
        coq_bytes(pats[0].encode()), coq_bytes(pats[1].encode()), coq_bytes(pats[2].encode()),
        coq_bytes(ans[0].encode()), coq_bytes(ans[1].encode()), coq_list([_ev_term(e) for e in evs]),
        CODES.get(res[0], 9), coq_list([coq_bytes(w) for w in res[1]]))


def gen_login_events(rng, pats, malformed):
    """base event list without quiet events (data non-empty, kicking empties, errors)"""
    evs = []
    if malformed:
        alphabet = (pats[0] + pats[1] + pats[2] + "LOGIN: \r\nxyz").encode()
        for _ in range(rng.randint(1, 9)):
            r = rng.random()
            if r < 0.12:
                evs.append(("err",))
            elif r < 0.25:
                evs.append(("data", b"", True))
            else:
                evs.append(("data", bytes(rng.choice(alphabet) for _ in range(rng.randint(1, 8))), rng.random() < 0.3))
        return evs
    # mostly-valid dialogue: optional banner, login prompt(s), password prompt(s), device prompt
    parts = []
    if rng.random() < 0.4:
        parts.append(rng.choice([b"Welcome\r\n", b"\r\n\r\nUser Access Verification\r\n", b"last LOGIN: never\r\n"]))
    for _ in range(rng.choice([0, 1, 1, 1, 2, 3])):
        parts.append(rng.choice([b"", b"\r\n"]) + pats[0].encode().capitalize() + rng.choice([b"", b" "]))
    for _ in range(rng.choice([0, 1, 1, 1, 2, 3])):
        parts.append(rng.choice([b"", b"\r\n"]) + pats[1].encode().capitalize() + rng.choice([b"", b" "]))
    if rng.random() < 0.85:
        parts.append(b"\r\n" + pats[2].encode())
    for p in parts:
        if not p:
            continue
        # chunk the part
        k = rng.choice([len(p), len(p), 1, 2, 3, 5])
        for i in range(0, len(p), k):
            evs.append(("data", p[i:i + k], False))
        if rng.random() < 0.1:
            evs.append(("err",))
        if rng.random() < 0.1:
            evs.append(("data", b"", True))
    return evs


def stutter(rng, evs, expiries):
    out = []
    for e in evs:
        while rng.random() < 0.35:
            out.append(("expire", False) if (expiries and rng.random() < 0.6) else ("data", b"", False))
        out.append(e)
    while rng.random() < 0.3:
        out.append(("expire", False) if expiries else ("data", b"", False))
    return out


def _hexev(evs):
    return [[e[0]] + [x.hex() if isinstance(x, bytes) else x for x in e[1:]] for e in evs]


def _unhexev(evs):
    return [tuple([e[0]] + [bytes.fromhex(x) if isinstance(x, str) else x for x in e[1:]]) for e in evs]


def login_suite(rep, thorough, extra=0):
    from . import c06_login as L
    rng = rep.rng
    n = (4000 if thorough else 220) + extra
    groups = []
    corpus = [
        ("telnet", PATSETS[0], [("data", b"login: ", False), ("data", b"Password:", False), ("data", b"\nr1#", False)]),
        ("telnet", PATSETS[0], [("err",), ("data", b"login: ", False), ("data", b"\nr1#", False)]),
        ("telnet", PATSETS[0], [("data", b"", True), ("data", b"r1#", False)]),
        ("telnet", PATSETS[0], [("data", b"login:", False)] * 3),
        ("telnet", PATSETS[0], [("data", b"password:", False)] * 3),
        ("telnet", PATSETS[0], [("data", b"login: password: r1#", False)]),
        ("ssh", PATSETS[0], [("data", b"password:", False), ("data", b"r1#", False)]),
        ("ssh", PATSETS[0], [("err",)]),
        ("telnet", PATSETS[0], []),
    ]
    for kind, pats, evs in corpus:
        groups.append((kind, pats, ("admin", "pw"), evs, False))
    for f in rep.findings:          # replays of listed findings are regression cases
        if f.get("replay"):
            try:
                r = json.load(open(os.path.join(common.VERIF, f["replay"])))
                if r.get("suite") == "login":
                    groups.append((r["loop"], tuple(r["patterns"]), tuple(r["answers"]), _unhexev(r["base"]), False))
            except Exception as e:  # noqa
                rep.notes.append("finding replay unreadable: %s" % e)
    for i in range(n):
        kind = "telnet" if rng.random() < 0.75 else "ssh"
        pats = rng.choice(PATSETS[:2]) if rng.random() < 0.8 else rng.choice(PATSETS)
        malformed = rng.random() < 0.3
        evs = gen_login_events(rng, pats, malformed)
        if kind == "ssh":
            evs = [(e[0], e[1], False) if e[0] == "data" else e for e in evs]
            if L.ssh_handler_fires(pats, evs):
                continue
        groups.append((kind, pats, (rng.choice(["admin", "u", ""]), rng.choice(["pw", "p@ss w0rd", ""])), evs, malformed))
    dist = {"groups": len(groups), "telnet": 0, "ssh": 0, "malformed": 0, "with_err": 0, "with_kick": 0, "outcomes": {},
            "events_hist": {}}
    jobs_async, sync_res, metas = [], [], []
    with L.scripted_clock():
        for kind, pats, ans, base, malformed in groups:
            dist[kind] += 1
            dist["malformed"] += 1 if malformed else 0
            dist["with_err"] += 1 if any(e[0] == "err" for e in base) else 0
            dist["with_kick"] += 1 if any(e[0] == "data" and e[2] for e in base) else 0
            dist["events_hist"][min(len(base), 20)] = dist["events_hist"].get(min(len(base), 20), 0) + 1
            st_s = stutter(rng, base, False)
            st_a = stutter(rng, base, True)
            metas.append((kind, pats, ans, base, st_s, st_a))
            sync_res.append((L.run_sync(kind, pats, ans, base), L.run_sync(kind, pats, ans, st_s)))
            jobs_async.append((kind, pats, ans, base))
            jobs_async.append((kind, pats, ans, st_a))
        ares = L.run_async_batch(jobs_async)
    terms, cases = [], []
    failures = []
    for i, (kind, pats, ans, base, st_s, st_a) in enumerate(metas):
        rs, rss = sync_res[i]
        ra, ras = ares[2 * i], ares[2 * i + 1]
        dist["outcomes"][rs[0]] = dist["outcomes"].get(rs[0], 0) + 1
        rep.case(("login", kind, pats, ans, tuple(base)), nontrivial=len(base) > 1)
        for stack, evs, r in (("sync", base, rs), ("sync", st_s, rss), ("async", base, ra), ("async", st_a, ras)):
            terms.append(login_case_term(kind, stack == "sync", pats, ans, evs, r))
            cases.append({"suite": "login", "loop": kind, "stack": stack, "patterns": list(pats), "answers": list(ans),
                          "events": _hexev(evs), "outcome": r[0], "writes": [w.hex() for w in r[1]]})
        canon = [(r[0], r[1]) for r in (rs, rss, ra, ras)]
        if any(c != canon[0] for c in canon[1:]):
            failures.append({"suite": "login", "loop": kind, "patterns": list(pats), "answers": list(ans),
                             "base": _hexev(base), "st_sync": _hexev(st_s), "st_async": _hexev(st_a),
                             "sync": [rs[0], [w.hex() for w in rs[1]]], "sync_stuttered": [rss[0], [w.hex() for w in rss[1]]],
                             "async": [ra[0], [w.hex() for w in ra[1]]], "async_stuttered": [ras[0], [w.hex() for w in ras[1]]]})
    if cases:
        rep.sample({k: cases[0][k] for k in ("suite", "loop", "stack", "events", "outcome", "writes")})
    bad, log = common.eval_cases(rep.workdir, "cases_c06_login", LOGIN_HEADER, terms, "chk")
    rep.coverage["correspondence"] = {"suite": "login-loops", "cases": len(terms), "distribution": dist,
                                      "model_disagreements": None if bad is None else len(bad),
                                      "oracle_failures": len(failures)}
    # shrink + report oracle failures (the two stacks / the stuttered runs differ)
    for f in failures[:3]:
        f = shrink_login(f)
        rep.violation("login loop %s: sync %s/%d writes, sync+empty reads %s/%d, asyncio %s/%d, asyncio+polling %s/%d" % (
            f["loop"], f["sync"][0], len(f["sync"][1]), f["sync_stuttered"][0], len(f["sync_stuttered"][1]),
            f["async"][0], len(f["async"][1]), f["async_stuttered"][0], len(f["async_stuttered"][1])),
            dict(f, rerun="./check C06 --replay <this file>"))
    if bad is None:
        rep.broken.append("correspondence login-loops (model evaluation failed)")
        rep.notes.append(log)
    elif bad:
        rep.broken.append("correspondence login-loops: model differs from implementation")
        for ix in bad[:3]:
            rep.notes.append("disagreement: %s" % json.dumps(cases[ix]))
    return len(failures)


def _login_differs(f):
    from . import c06_login as L
    pats, ans = tuple(f["patterns"]), tuple(f["answers"])
    with L.scripted_clock():
        rs = L.run_sync(f["loop"], pats, ans, _unhexev(f["base"]))
        rss = L.run_sync(f["loop"], pats, ans, _unhexev(f["st_sync"]))
        ra, ras = L.run_async_batch([(f["loop"], pats, ans, _unhexev(f["base"])), (f["loop"], pats, ans, _unhexev(f["st_async"]))])
    c = [(r[0], r[1]) for r in (rs, rss, ra, ras)]
    res = {"sync": [rs[0], [w.hex() for w in rs[1]]], "sync_stuttered": [rss[0], [w.hex() for w in rss[1]]],
           "async": [ra[0], [w.hex() for w in ra[1]]], "async_stuttered": [ras[0], [w.hex() for w in ras[1]]]}
    return any(x != c[0] for x in c[1:]), res


def shrink_login(f):
    """drop events of the base list while the four runs still differ (stuttered variants := base)"""
    cur = dict(f)
    cur["st_sync"] = cur["st_async"] = cur["base"]
    d, res = _login_differs(cur)
    if not d:
        return f      # the difference needs the stutter: keep as found
    cur.update(res)
    changed = True
    while changed and len(cur["base"]) > 1:
        changed = False
        for i in range(len(cur["base"])):
            t = dict(cur)
            t["base"] = cur["base"][:i] + cur["base"][i + 1:]
            t["st_sync"] = t["st_async"] = t["base"]
            d, res = _login_differs(t)
            if d:
                t.update(res)
                cur = t
                changed = True
                break
    return cur


# ------------------------------------------------------------------------------------------------
# paired driver scenarios over SimDevice (observed)
# ------------------------------------------------------------------------------------------------
def _tally(dist, sc, a):
    dist["kinds"][sc["kind"]] = dist["kinds"].get(sc["kind"], 0) + 1
    dist["families"][sc.get("family", "mixed")] = dist["families"].get(sc.get("family", "mixed"), 0) + 1
    dist["policies"][sc["policy"][0]] = dist["policies"].get(sc["policy"][0], 0) + 1
    fk = "none"
    if sc.get("fault"):
        fk = sorted(k for k in sc["fault"] if k != "exc")[0]
    elif sc["device"].get("silent_after") is not None:
        fk = "silent_after"
    elif sc["device"].get("refuse") or sc["device"].get("ignore"):
        fk = "refuse/ignore"
    dist["faults"][fk] = dist["faults"].get(fk, 0) + 1
    T = sc.get("driver_kwargs", {}).get("timeout_ops", 0)
    lat = sc["device"].get("latency") or {}
    if T or lat:
        tm = dist["timeouts"]
        tm["scenarios"] += 1
        tm["connection_timeout_ops"][str(T)] = tm["connection_timeout_ops"].get(str(T), 0) + 1
        tm["slow_lines_hist"][len(lat)] = tm["slow_lines_hist"].get(len(lat), 0) + 1
    for op, o in zip(sc["ops"], a["ops"]):
        kw = op[2] if len(op) > 2 and isinstance(op[2], dict) else {}
        if "timeout_ops" in kw:
            tm = dist["timeouts"]
            v = kw["timeout_ops"]
            rel = ("None" if v is None else "0" if v == 0 else "same" if v == T else "smaller" if (T and v < T) else "larger" if T else "set")
            tm["per_call"][rel] = tm["per_call"].get(rel, 0) + 1
            tm["per_call_ops"][op[0]] = tm["per_call_ops"].get(op[0], 0) + 1
            oc = o[1] if o[0] == "exc" else o[0]
            tm["per_call_outcomes"][oc] = tm["per_call_outcomes"].get(oc, 0) + 1
        if op[0] in ("send_commands", "send_configs", "send_commands_from_file", "send_configs_from_file", "send_config"):
            lines = op[1].split("\n") if isinstance(op[1], str) else list(op[1])
            if len(lines) > 1:
                ls = dist["lists"]
                ls["lists"] += 1
                ls["eager"][str(kw.get("eager"))] = ls["eager"].get(str(kw.get("eager")), 0) + 1
                ls["with_adjacent_repeat"] += 1 if any(x == y for x, y in zip(lines, lines[1:])) else 0
                ls["with_repeat_apart"] += 1 if any(lines[i] in lines[i + 2:] for i in range(len(lines))) else 0
                ls["last_entry_earlier"] += 1 if lines[-1] in lines[:-1] else 0
                ls["last_entry_earlier_and_eager"] += 1 if (lines[-1] in lines[:-1] and kw.get("eager")) else 0
                ls["with_promptless_lines"] += 1 if any(x in (sc["device"].get("dialogs") or {}) for x in lines) else 0
                ls["ops"][op[0]] = ls["ops"].get(op[0], 0) + 1
        dist["ops"][op[0]] = dist["ops"].get(op[0], 0) + 1
        dist["op_outcomes"][o[0]] = dist["op_outcomes"].get(o[0], 0) + 1
        if o[0] == "exc":
            dist["exceptions"][o[1]] = dist["exceptions"].get(o[1], 0) + 1
        if op[0] in ("send_interactive", "channel_send_inputs_interact") and len(op[1]) > 1:
            it = dist["interactive"]
            it["dialogues"] += 1
            it["events_hist"][len(op[1])] = it["events_hist"].get(len(op[1]), 0) + 1
            resp = [e[1] for e in op[1]]
            it["same_response_in_a_row"] += 1 if any(x == y for x, y in zip(resp, resp[1:])) else 0
            it["hidden_inputs"] += 1 if any(len(e) > 2 and e[2] for e in op[1]) else 0
            kw = op[2] if len(op) > 2 else {}
            it["with_complete_patterns"] += 1 if kw.get("interaction_complete_patterns") else 0
            it["outcomes"][o[0] if o[0] != "exc" else o[1]] = it["outcomes"].get(o[0] if o[0] != "exc" else o[1], 0) + 1
    if sc.get("family") == "and_read" and "expected_classes" in sc:
        ar = dist["and_read"]
        ar["scenarios"] += 1
        ar["with_endless_lines"] += 1 if sc["device"].get("dialogs") else 0
        calls = [(op, o) for op, o in zip(sc["ops"], a["ops"]) if op[0] in ("send_and_read", "channel_send_input_and_read")]
        for (op, o), classes in zip(calls, sc["expected_classes"]):
            ar["calls"][op[0]] = ar["calls"].get(op[0], 0) + 1
            key = "+".join(sorted(set(classes))) or "none given"
            ar["expected_classes"][key] = ar["expected_classes"].get(key, 0) + 1
            oc = o[1] if o[0] == "exc" else o[0]
            ar["outcomes"][oc] = ar["outcomes"].get(oc, 0) + 1
            if o[0] == "ok" and op[1] in (sc["device"].get("dialogs") or {}):
                ar["stopped_inside_an_endless_stream"] += 1
            elif o[0] == "ok" and not bytes.fromhex(o[1][2] if op[0] == "send_and_read" else o[1][0]).rstrip().endswith((b"#", b">", b"%")):
                ar["stopped_before_the_prompt"] += 1
    if sc.get("family") == "ansi":
        an = dist["ansi"]
        an["scenarios"] += 1
        pol = sc["policy"]
        if pol[0] == "esccut":
            an["cut_position"][str(pol[1])] = an["cut_position"].get(str(pol[1]), 0) + 1
            an["chunk_behind_the_cut"][pol[2]] = an["chunk_behind_the_cut"].get(pol[2], 0) + 1
        an["with_insertions"] += 1 if sc["device"].get("insertions") else 0
        esc = bytes.fromhex(a["reads"]).count(b"\x1b")
        an["esc_bytes_read_hist"][min(esc, 10)] = an["esc_bytes_read_hist"].get(min(esc, 10), 0) + 1
        an["results_with_esc_left"] += 1 if "\\u001b" in json.dumps(a["ops"]) else 0
    if sc.get("first"):
        tw = dist["two_objects"]
        tw["scenarios"] += 1
        tw["kinds"][sc["kind"]] = tw["kinds"].get(sc["kind"], 0) + 1
        for e in sc["first"].get("edits", []):
            tw["edited_field"][e[1]] = tw["edited_field"].get(e[1], 0) + 1
        tw["first_used_before_edit"] += 1 if sc["first"].get("ops_before") else 0
        tw["first_used_after_edit"] += 1 if sc["first"].get("ops_after") else 0
        tw["first_failed_after_edit"] += 1 if any(o[0] == "exc" for o in a["first"]["ops"]) else 0
        tw["isolation_failures"] += 1 if a.get("isolation") else 0
    if sc.get("family") == "errors":
        er = dist["error_paths"]
        er["scenarios"] += 1
        meta = sc.get("err") or {}
        for k in ("mode", "behaviour", "secondary", "on_open", "on_close"):
            if k in meta:
                er[k][str(meta[k])] = er[k].get(str(meta[k]), 0) + 1
        T = sc.get("driver_kwargs", {}).get("timeout_ops", 0)
        er["timeout_armed"][str(bool(T))] = er["timeout_armed"].get(str(bool(T)), 0) + 1
        for x in a.get("errors", []):
            key = "%s <- %s" % (x[1], ",".join(x[3])) if x[3] else x[1]
            er["failures"][key] = er["failures"].get(key, 0) + 1
            er["message_classes"][x[2][:60]] = er["message_classes"].get(x[2][:60], 0) + 1
        er["with_failure"] += 1 if a.get("errors") else 0
        er["reopened_after_failure"] += 1 if any(op[0] == "open" and i > (a["errors"][0][0] if a.get("errors") else 10 ** 6)
                                                  for i, op in enumerate(sc["ops"])) else 0
        er["transport_closed_at_end"] += 0 if a.get("transport_open") else 1
    if sc.get("family") == "with_open":
        wo = dist["with_open"]
        wo["scenarios"] += 1
        c = (sc.get("with_open") or {}).get("cause", "?")
        wo["causes"][c] = wo["causes"].get(c, 0) + 1
        causes = {x[0]: ",".join(x[3]) for x in a.get("errors", [])}
        failed, first = False, True
        for i, (op, o) in enumerate(zip(sc["ops"], a["ops"])):
            if op[0] != "with":
                continue
            wo["blocks"] += 1
            wo["blocks_entered"] += 1 if (o[0] == "ok" or o[2] != "enter") else 0
            wo["re_entered_after_failure"] += 1 if failed else 0
            key = "entered" if o[0] == "ok" else "%s: %s%s" % (o[2], o[1], (" <- " + causes[i]) if causes.get(i) else "")
            if first:
                wo["first_block"][c + " / " + key] = wo["first_block"].get(c + " / " + key, 0) + 1
                first = False
            if o[0] == "exc":
                failed = True
                k2 = "enter_failures" if o[2] == "enter" else "exit_failures"
                wo[k2][key] = wo[k2].get(key, 0) + 1
        wo["transport_open_at_end"] += 1 if a.get("transport_open") else 0
    tr = a.get("dialogue", [])
    if tr:
        it = dist["interactive"]
        it["device_skipped_a_question"] += 1 if any(x.startswith("skip") for x in tr) else 0
        it["device_refused_an_answer"] += 1 if any(x.startswith("refused") for x in tr) else 0
        it["left_open"] += 1 if tr[-1] == "open" else 0
        it["hidden_answers_typed"] += len(a["hidden"])


def _new_dist():
    return {"scenarios": 0, "kinds": {}, "families": {}, "policies": {}, "faults": {}, "ops": {}, "op_outcomes": {}, "exceptions": {},
            "lists": {"lists": 0, "eager": {}, "with_adjacent_repeat": 0, "with_repeat_apart": 0, "last_entry_earlier": 0,
                      "last_entry_earlier_and_eager": 0, "with_promptless_lines": 0, "ops": {}},
            "timeouts": {"scenarios": 0, "connection_timeout_ops": {}, "slow_lines_hist": {}, "per_call": {}, "per_call_ops": {},
                         "per_call_outcomes": {}},
            "error_paths": {"scenarios": 0, "mode": {}, "behaviour": {}, "secondary": {}, "on_open": {}, "on_close": {},
                            "timeout_armed": {}, "failures": {}, "message_classes": {}, "with_failure": 0,
                            "reopened_after_failure": 0, "transport_closed_at_end": 0},
            "and_read": {"scenarios": 0, "with_endless_lines": 0, "calls": {}, "expected_classes": {}, "outcomes": {},
                         "stopped_inside_an_endless_stream": 0, "stopped_before_the_prompt": 0},
            "ansi": {"scenarios": 0, "cut_position": {}, "chunk_behind_the_cut": {}, "with_insertions": 0, "esc_bytes_read_hist": {},
                     "results_with_esc_left": 0},
            "two_objects": {"scenarios": 0, "kinds": {}, "edited_field": {}, "first_used_before_edit": 0, "first_used_after_edit": 0,
                            "first_failed_after_edit": 0, "isolation_failures": 0},
            "with_open": {"scenarios": 0, "causes": {}, "first_block": {}, "enter_failures": {}, "exit_failures": {}, "blocks": 0,
                          "blocks_entered": 0, "re_entered_after_failure": 0, "transport_open_at_end": 0},
            "interactive": {"dialogues": 0, "events_hist": {}, "same_response_in_a_row": 0, "hidden_inputs": 0,
                            "with_complete_patterns": 0, "outcomes": {}, "device_skipped_a_question": 0,
                            "device_refused_an_answer": 0, "left_open": 0, "hidden_answers_typed": 0}}


def _run_pairs(rep, P, scs, dist, label, reported, limit=3):
    """both real stacks on every scenario, compared with each other; the first `limit` differences are shrunk and reported"""
    sy = [P.run_sync(sc) for sc in scs]
    asy = P.run_async_batch(scs)
    nfail = 0
    for sc, a, b in zip(scs, sy, asy):
        dist["scenarios"] += 1
        _tally(dist, sc, a)
        rep.case(("pair", json.dumps(sc, sort_keys=True)), nontrivial=len(a["device_log"]) > 0)
        d = P.diff_obs(a, b)
        sig = P.known_signature(sc, a, b, d) if d else None
        if sig and rep.known_match(sig) is not None:
            dist["known_finding_differences"] = dist.get("known_finding_differences", 0) + 1
            rep.violation("listed finding %s" % sig, {"suite": "twin-diff", "scenario": sc}, signature=sig)
        elif d:
            # the asyncio side ran in a BATCH (one event loop, one scripted clock for all scenarios of the batch): a difference
            # is only a difference of the twins when it is still there with the pair run on its own (scenarios are
            # deterministic; what a neighbour in the batch did to the shared clock is the harness's doing, not scrapli's)
            try:
                a_i, b_i = P.run_sync(sc), P.run_async_batch([sc])[0]
                d_i = P.diff_obs(a_i, b_i)
            except Exception:  # noqa
                a_i, b_i, d_i = a, b, d
            if not d_i:
                dist["batch_only_differences"] = dist.get("batch_only_differences", 0) + 1
                continue
            a, b, d = a_i, b_i, d_i
            nfail += 1
            if reported[0] < limit:
                reported[0] += 1
                sc2, a2, b2, d2 = shrink_pair(P, sc, a, b, d)
                only_iso = d2 == ["isolation"]
                rep.violation("%s %s on ops %s%s" % (
                    ("both %s stacks fail the isolation expectation of a two-object history:" % sc2["kind"]) if only_iso else
                    ("sync and asyncio %s stacks differ in" % sc2["kind"]), a2["isolation"][:2] if only_iso else d2,
                    json.dumps([o[0] for o in sc2["ops"]]), label),
                    {"suite": "twin-diff", "scenario": sc2, "differs_in": d2,
                     "sync": {k: a2[k] for k in d2}, "async": {k: b2[k] for k in d2},
                     "rerun": "./check C06 --replay <this file>"})
    return nfail, sy


def pair_suite(rep, thorough):
    from . import c06_pairs as P
    rng = rep.rng
    n = 30000 if thorough else 700
    n_inter = 6000 if thorough else 220          # interactive dialogues on top of the mixed scenarios
    n_lists = 6000 if thorough else 300          # lists with repeated entries, eager on / off
    n_timed = 8000 if thorough else 400          # per-call timeout_ops x device latency (scripted time)
    n_err = 8000 if thorough else 500            # error paths: failed escalation / de-escalation / on_open, timeout armed
    n_read = 4000 if thorough else 260           # send_and_read / send_input_and_read x expected_outputs classes x streaming devices
    n_ansi = 4000 if thorough else 280           # escape sequences x cuts inside them
    n_two = 2000 if thorough else 150            # two objects per platform driver, a default level of the first edited in place
    n_with = 6000 if thorough else 500           # with-block form of opening x the ways the open inside __enter__ can fail
    scs = list(P.corpus())
    for f in rep.findings:
        if f.get("replay"):
            try:
                r = json.load(open(os.path.join(common.VERIF, f["replay"])))
                if r.get("suite") == "twin-diff" and r.get("scenario"):
                    scs.append(r["scenario"])
            except Exception as e:  # noqa
                rep.notes.append("finding replay unreadable: %s" % e)
    for i in range(n):
        scs.append(P.gen_scenario(rng))
    for i in range(n_inter):
        scs.append(P.gen_scenario(rng, family="interactive", faulty=(rng.random() < 0.15)))
    for i in range(n_lists):
        scs.append(P.gen_scenario(rng, family="lists", faulty=(rng.random() < 0.15)))
    for i in range(n_timed):
        scs.append(P.gen_scenario(rng, family="timeouts", faulty=(rng.random() < 0.15)))
    for i in range(n_err):
        scs.append(P.gen_scenario(rng, family="errors"))
    for i in range(n_read):
        scs.append(P.gen_and_read_scenario(rng))
    for i in range(n_ansi):
        scs.append(P.gen_scenario(rng, family="ansi"))
    for i in range(n_two):
        scs.append(P.gen_scenario(rng, family="two_objects"))
    import random
    rng_w = random.Random("C06-with-%d" % rep.seed)      # own stream (derived from VERIF_SEED): the families above keep theirs
    for i in range(n_with):
        scs.append(P.gen_with_scenario(rng_w))
    dist = _new_dist()
    nfail, sy = _run_pairs(rep, P, scs, dist, "", [0])
    if sy:
        k = min(len(sy) - 1, 20)
        rep.sample({"suite": "twin-diff", "scenario": scs[k], "sync_ops": sy[k]["ops"][:3], "sent": sy[k]["sent"][:120]})
        for sc, a in zip(scs, sy):
            if sc.get("family") == "interactive" and any(x.startswith("skip") for x in a.get("dialogue", [])):
                rep.sample({"suite": "twin-diff", "scenario": sc, "sync_ops": a["ops"][:3], "dialogue": a["dialogue"]})
                break
    rep.coverage["twin_diff"] = {"distribution": dist, "stack_differences": nfail}
    return nfail


PLATFORM_PAIRS = ("cisco_iosxe", "cisco_iosxr", "cisco_nxos", "arista_eos", "juniper_junos")
ALL_KINDS = ["generic", "network"] + list(PLATFORM_PAIRS)


def focus_plan(focus):
    """twin-table function -> (driver kinds, scenario families) whose scenarios reach it"""
    from . import c06_pairs as P
    plan = {}
    for fn in focus:
        pair = fn.split(":")[0]
        if pair == "telnet":
            continue                          # the transports have their own suite (run at thorough size)
        if pair in PLATFORM_PAIRS:
            kinds = [pair]
        elif pair == "driver_network":
            kinds = ["network"] + list(PLATFORM_PAIRS)
        else:
            kinds = list(ALL_KINDS)           # channel, base / generic driver, the decorators: every kind goes through them
        plan[fn] = (kinds, P.families_of(fn))
    return plan


def focus_search(rep, focus, thorough):
    """A twin-diff obligation broke for the functions in `focus`: before giving up with no-failing-input-found, run the
    scenario families that exercise each of them, on the driver kinds that reach it, with extra seeds (a fresh generator
    per round, derived from VERIF_SEED), until one round shows a difference between the stacks."""
    import random
    from . import c06_pairs as P
    plan = focus_plan(focus)
    rounds, per = (24, 1500) if thorough else (8, 400)
    out = {"plan": {fn: {"kinds": k, "families": f} for fn, (k, f) in plan.items()}, "rounds": 0, "scenarios": 0, "stack_differences": 0}
    dist = _new_dist()
    reported = [0]
    for fn, (kinds, fams) in sorted(plan.items()):
        found = 0
        for k in range(rounds):
            rng = random.Random("C06-focus-%d-%s-%d" % (rep.seed, fn, k))
            scs = [P.gen_scenario(rng, kind=rng.choice(kinds), family=rng.choice(fams)) for _ in range(per)]
            nf, _ = _run_pairs(rep, P, scs, dist, " (searching around the changed twin %s, extra seed %d)" % (fn, k), reported)
            out["rounds"] += 1
            out["scenarios"] += len(scs)
            found += nf
            if nf:
                break
        out["stack_differences"] += found
    out["distribution"] = dist
    rep.coverage["focus_search"] = out
    return out["stack_differences"]


def shrink_pair(P, sc, a, b, d):
    def differs(s):
        x, y = P.run_sync(s), P.run_async_batch([s])[0]
        dd = P.diff_obs(x, y)
        return dd, x, y
    cur, ca, cb, cd = sc, a, b, d
    changed = True
    while changed:
        changed = False
        for i in range(len(cur["ops"]) - 1, 0, -1):
            t = json.loads(json.dumps(cur))
            del t["ops"][i]
            dd, x, y = differs(t)
            if dd:
                cur, ca, cb, cd = t, x, y, dd
                changed = True
                break
    # operations inside with-blocks
    for j in range(len(cur["ops"])):
        i = 0
        while cur["ops"][j][0] == "with" and i < len(cur["ops"][j][1]):
            t = json.loads(json.dumps(cur))
            del t["ops"][j][1][i]
            dd, x, y = differs(t)
            if dd:
                cur, ca, cb, cd = t, x, y, dd
            else:
                i += 1
    for simpler in (("policy", ["whole"]), ("fault", None)):
        t = json.loads(json.dumps(cur))
        t[simpler[0]] = simpler[1]
        dd, x, y = differs(t)
        if dd:
            cur, ca, cb, cd = t, x, y, dd
    # driver options / device behaviours the difference does not need
    for where, key in (("driver_kwargs", "on_open"), ("driver_kwargs", "on_close"), ("device", "mute"), ("device", "refuse"),
                       ("device", "ignore"), ("device", "auth_hang"), ("device", "auth_attempts"), ("device", "motd")):
        if key in (cur.get(where) or {}):
            t = json.loads(json.dumps(cur))
            del t[where][key]
            dd, x, y = differs(t)
            if dd:
                cur, ca, cb, cd = t, x, y, dd
    # device description: drop the outputs / dialogues / questions' extras the difference does not need
    # two-object histories: what the first object does around the edit, and the edits themselves (one must stay)
    for key in ("ops_before", "ops_after", "edits"):
        i = 0
        while cur.get("first") and i < len(cur["first"].get(key) or []):
            if key == "edits" and len(cur["first"]["edits"]) < 2:
                break
            t = json.loads(json.dumps(cur))
            del t["first"][key][i]
            dd, x, y = differs(t)
            if dd:
                cur, ca, cb, cd = t, x, y, dd
            else:
                i += 1
    # expected_outputs entries the difference does not need
    for j, op in enumerate(cur["ops"]):
        i = 0
        while len(op) > 2 and isinstance(op[2], dict) and len(cur["ops"][j][2].get("expected_outputs") or []) > 1 and \
                i < len(cur["ops"][j][2]["expected_outputs"]):
            t = json.loads(json.dumps(cur))
            del t["ops"][j][2]["expected_outputs"][i]
            dd, x, y = differs(t)
            if dd:
                cur, ca, cb, cd = t, x, y, dd
            else:
                i += 1
    for key in ("outputs", "dialogs", "latency", "insertions"):
        for name in sorted(cur["device"].get(key) or {}):
            t = json.loads(json.dumps(cur))
            del t["device"][key][name]
            dd, x, y = differs(t)
            if dd:
                cur, ca, cb, cd = t, x, y, dd
    return cur, ca, cb, cd


# ------------------------------------------------------------------------------------------------
# the two real Telnet transports over scripted sockets, compared with each other
# ------------------------------------------------------------------------------------------------
def telnet_suite(rep, thorough):
    from . import c15
    rng = rep.rng
    n = 600 if thorough else 80
    streams = [c15.tok_stream([("C", 253, 1), ("D", b"login:")]), c15.tok_stream([("D", b"a\x00b"), ("C", 251, 3)])]
    over = c15.tok_stream([("C", 253, i) for i in range(12)] + [("D", b"tail")])
    for _ in range(n):
        streams.append(c15.tok_stream(c15.gen_tokens(rng)) if rng.random() < 0.8 else c15.gen_malformed(rng))
    nfail, total, overlimit = 0, 0, 0
    # the listed known finding first
    for f in rep.findings:
        if f.get("signature") == SIG_TELNET_LIMIT and f.get("replay"):
            chunks = [bytes.fromhex(x) for x in json.load(open(os.path.join(common.VERIF, f["replay"])))["chunks"]]
            if c15.run_sync(chunks) != c15.run_async(chunks):
                rep.known(SIG_TELNET_LIMIT)
    for s in streams + [over]:
        if not s:
            continue
        ncmd = _count_cmds(s)
        for chunks in c15.segmentations(rng, s, False, 2)[: (30 if thorough else 8)]:
            total += 1
            rs, ra = c15.run_sync(chunks), c15.run_async(chunks)
            rep.case(("telnet", s, tuple(chunks)), nontrivial=ncmd > 0)
            if rs != ra:
                replay = {"suite": "telnet-twins", "chunks": [c.hex() for c in chunks],
                          "sync": [rs[0].hex(), rs[1].hex(), rs[2]], "async": [ra[0].hex(), ra[1].hex(), ra[2]],
                          "commands": ncmd}
                if ncmd >= 10:      # the sync transport's answered-command counter reaches its limit
                    overlimit += 1
                    if overlimit == 1:
                        rep.violation("telnet transports differ after more than 10 negotiation commands", replay,
                                      signature=SIG_TELNET_LIMIT)
                else:
                    nfail += 1
                    if nfail <= 3:
                        rep.violation("the two Telnet transports differ on %r: sync %r / asyncio %r" % (chunks, rs, ra), replay)
    rep.coverage["telnet_twins"] = {"runs": total, "stack_differences": nfail, "over_limit_differences(known)": overlimit}


def _count_cmds(s):
    """number of commands a transport that never stops negotiating completes on this stream (the automaton
    of _handle_control_chars_response: IAC, then the first verb byte, then any byte)"""
    n, cb = 0, 0
    i = s.find(b"\xff")
    if i < 0:
        return 0
    for c in s[i:]:
        if cb == 0:
            cb = 1 if c == 255 else 0
        elif cb == 1:
            cb = 2 if c in (251, 252, 253, 254) else 1
        else:
            n, cb = n + 1, 0
    return n


# ------------------------------------------------------------------------------------------------
# runtime probes
# ------------------------------------------------------------------------------------------------
def probe_open_refused(rep):
    """both real Telnet transports against a closed loopback port"""
    from scrapli.transport.base.base_transport import BaseTransportArgs
    from scrapli.transport.plugins.asynctelnet.transport import AsynctelnetTransport
    from scrapli.transport.plugins.asynctelnet.transport import PluginTransportArgs as APA
    from scrapli.transport.plugins.telnet.transport import PluginTransportArgs as SPA
    from scrapli.transport.plugins.telnet.transport import TelnetTransport
    res = []
    for _ in range(3):
        s = socket.socket()
        s.bind(("127.0.0.1", 0))
        port = s.getsockname()[1]
        s.close()
        bta = BaseTransportArgs(transport_options={}, host="127.0.0.1", port=port, timeout_socket=5, timeout_transport=5)
        try:
            TelnetTransport(bta, SPA()).open()
            rs = "ok"
        except Exception as e:  # noqa
            rs = type(e).__name__

        async def go():
            try:
                await AsynctelnetTransport(bta, APA()).open()
                return "ok"
            except Exception as e:  # noqa
                return type(e).__name__
        loop = asyncio.new_event_loop()
        try:
            ra = loop.run_until_complete(go())
        finally:
            loop.close()
        res.append((rs, ra))
        if rs != "ok" and ra != "ok":
            break
    rs, ra = res[-1]
    rep.coverage["probe_open_refused"] = {"sync": rs, "async": ra}
    rep.case(("probe", "open-refused"))
    if "ok" in (rs, ra):
        rep.notes.append("open-refused probe inconclusive (a port was reused): %r" % (res,))
        return
    if rs != ra:
        rep.violation("opening a refused Telnet connection raises %s (sync) but %s (asyncio)" % (rs, ra),
                      {"suite": "probe-open-refused", "sync": rs, "async": ra, "rerun": "./check C06 --replay <this file>"},
                      signature=SIG_TELNET_OPEN)


def probe_login_timeout_ops_zero(rep):
    """driver-level Telnet login with timeout_ops = 0 ("no timeout"): both stacks must log in"""
    from . import c06_login as L
    from scrapli.channel import AsyncChannel, Channel
    evs = [("data", b"login: ", False), ("data", b"password: ", False), ("data", b"\nr1#", False)]
    pats = PATSETS[0]

    def args():
        a = L._args(pats)
        a.timeout_ops = 0
        return a
    t = L.EvTransport(evs)
    try:
        Channel(transport=t, base_channel_args=args()).channel_authenticate_telnet("admin", "pw")
        rs = ("ok", [w.hex() for w in t.writes], t.nreads)
    except BaseException as e:  # noqa
        if isinstance(e, (KeyboardInterrupt, SystemExit)):
            raise
        rs = (L._classify(e), [w.hex() for w in t.writes], t.nreads)
    ta = L.AsyncEvTransport(evs)

    async def go():
        ch = AsyncChannel(transport=ta, base_channel_args=args())
        try:
            await asyncio.wait_for(ch.channel_authenticate_telnet("admin", "pw"), timeout=2.5)
            return "ok"
        except asyncio.TimeoutError:
            return "still-running-after-2.5s"
        except BaseException as e:  # noqa
            if isinstance(e, (KeyboardInterrupt, SystemExit)):
                raise
            return L._classify(e)
    loop = asyncio.new_event_loop()
    try:
        ra = (loop.run_until_complete(go()), [w.hex() for w in ta.writes], ta.nreads)
    finally:
        loop.close()
    rep.coverage["probe_login_timeout_ops_0"] = {"sync": list(rs), "async": [ra[0], len(ra[1]), ra[2]]}
    rep.case(("probe", "login-timeout-ops-0"))
    if rs[0] != ra[0] or (ra[0] == "ok" and rs[1] != ra[1]):
        rep.violation("Telnet login with timeout_ops=0: sync %s after %d reads; asyncio %s after %d reads, %d writes" % (
            rs[0], rs[2], ra[0], ra[2], len(ra[1])),
            {"suite": "probe-login-timeout-ops-0", "sync": list(rs), "async": [ra[0], ra[1][:20], ra[2]],
             "rerun": "./check C06 --replay <this file>"})


# ------------------------------------------------------------------------------------------------
def run(rep):
    warnings.simplefilter("ignore")
    thorough = rep.tier == "thorough"
    rep.checker_cmd = ("coqc -Q coq Verif -Q _build/C06 Gen: static make (model/Twins.v, proofs/Twins_Proofs.v), Gen_Twins.v, "
                       "props/C06.v with Print Assumptions; cases_c06_login_*.v by vm_compute")
    info, focus = structural(rep)
    # a twin function changed outside the committed list: search harder around it (see focus_search)
    extra_login = 1500 if any("authenticate" in fn for fn in focus) else 0
    if thorough and not rep.broken:
        # independent re-check of the compiled property file by the standalone checker
        rc, out, _ = common.sh(["timeout", "600", "coqchk", "-o", "-silent", "-Q", common.COQ, "Verif", "-Q", rep.workdir, "Gen", "Gen.C06"],
                               cwd=rep.workdir, timeout=700)
        rep.coverage["coqchk"] = "ok: " + " ".join(out.split())[-200:] if rc == 0 else "FAILED"
        if rc != 0 or "Axioms: <none>" not in out:
            rep.broken.append("coqchk props/C06.vo")
            rep.notes.append(out[-2000:])
    login_suite(rep, thorough, extra=extra_login)
    pair_suite(rep, thorough)
    if focus:
        focus_search(rep, focus, thorough)
    telnet_suite(rep, thorough or bool(focus))
    try:
        probe_open_refused(rep)
    except OSError as e:      # no loopback in this sandbox: the probe is inconclusive, not a failure
        rep.notes.append("open-refused probe could not run: %r" % (e,))
    probe_login_timeout_ops_zero(rep)
    rep.rule = ("login: (loop, literal patterns, answers, event list) groups, each run 4x (sync/asyncio x plain/with empty reads or real "
                "20 ms poll expiries inserted); mostly-valid dialogues chunked 1/2/3/5/whole + 30% malformed event lists + corpus; "
                "twin-diff: SimDevice scenarios = platform x login mode x enable secret x outputs x chunking policy x fault "
                "(drop/write error/silence/transient error/refused or ignored transition) x 1-6 operations, both real stacks; "
                "+ the interactive family: send_interactive / channel send_inputs_interact against device dialogues of 1-4 questions "
                "(same expected response several times in a row, questions the device skips or answers it refuses so that it is back "
                "at its prompt with events still queued, hidden answers, client knowing fewer / more questions than the device) x "
                "interaction_complete_patterns (none / empty / prompt regex / literal / one that is already in an earlier event's "
                "output) followed by ordinary operations; + the lists family: send_commands / send_configs / send_config / "
                "send_commands_from_file / send_configs_from_file with 2-6 entries repeated in a given shape (adjacent, apart, the last "
                "entry earlier in the list, all the same, first = last, the same line up to case / blanks, none) x eager True / False / "
                "not given x stop_on_failed x strip_prompt, 25% of the eager ones with a block of lines after which the device prints "
                "no prompt (banner / certificate / macro text) whose lines repeat the last entry; + the timeouts family: connection "
                "timeout_ops in {0, 0.35, 2.1, 20.1} x per-call timeout_ops (not given / None / 0 / 0.0 / the connection's / 0.05 ... "
                "200.1) on every send_* operation x 1-5 device lines with a latency of 0.25 / 1 / 10 / 100 s, in scripted time "
                "(deadlines never coincide with an answer: latencies are multiples of 0.25 s, timeouts are not); + the errors family: "
                "connection timeout_ops in {0.35, 2.1, 20.1, 0} x mode auth (escalation line enable / start shell user root behind a "
                "password dialogue; auth_secondary wrong / empty / not given / right; device re-prompts 3x / 2x, refuses at once, hangs "
                "after a wrong / any password, refuses / ignores the escalation line or goes silent after it; platform on_open / none / "
                "escalating on_open; acquire_priv / send_command / send_configs / send_interactive(privilege_level)) | mode deescalate "
                "(a line leading down refused / ignored / unanswered, operations walking up then down) | mode on_open (named user hooks "
                "for on_open x on_close: raise ValueError / own exception / a scrapli exception, unknown privilege level, a command, a "
                "command then raise, a config, an escalation; device healthy / hanging on a session set-up line / ignoring configure) "
                "each followed by 1-3 of get_prompt / send_command / acquire_priv / send_configs / close / re-open; a read with nothing "
                "pending waits 1e6 scripted seconds before Starved, so an armed timeout_ops expires in the real decorators; every failed "
                "operation is observed as (type, message class, explicit cause types), plus transport open / closed at the end; "
                "+ the and_read family: send_and_read / channel.send_input_and_read x 1-3 expected_outputs entries per call drawn from "
                "{plain text of the answer (any case), text of the answer with regex metacharacters ([confirm], (y/n), a|b, c++, $5, "
                "1.1/1.2/1.3), real patterns that occur only as a pattern, text that occurs nowhere, strings that are not a valid "
                "pattern} x streaming answers (ping / configuration / counters text that goes on after the expected place; half of "
                "the devices also have lines whose answer never ends in a prompt) x chunking, followed by get_prompt / send_command "
                "which see what was left unread; + the ansi family: escape sequences (SGR, ESC[?25h, ESC[K, OSC title ... BEL, ESC 7, "
                "DSR; single and back to back) inside command outputs and inserted at arbitrary stream offsets (prompts, echoes) x "
                "chunking policy esccut (cut k = 1..9 / last byte behind each ESC; the next chunk = the rest of the sequence only / "
                "rest + plain text up to the next ESC / everything incl. further sequences) or an ordinary policy, every cut position "
                "of ESC[0m, ESC[?25h and an OSC in the fixed corpus; + the two_objects family: per platform driver a first object "
                "(optionally opened and used), 1-2 in-place edits of its default levels (pattern / escalate / deescalate / not_contains."
                "append / escalate_prompt / escalate_auth / previous_priv), optionally update_privilege_levels() and more use, then a "
                "second object constructed and used; oracle = the stacks agree AND in each stack the second object's levels equal those "
                "of an object constructed before the edit AND its observations equal the same history without the edit; + the with_open family (own generator stream derived from VERIF_SEED): "
                "op [with, body] = with drv: / async with drv: x cause of failure inside __enter__ {in-band telnet login with right / wrong / "
                "empty password or wrong user against a device that re-asks for ever, or hangs after user / password (timeout_ops 0 or 200.1); "
                "transport open() raising ScrapliAuthenticationFailed / ScrapliConnectionNotOpened / ScrapliConnectionError / ScrapliTimeout / "
                "OSError / ConnectionRefusedError on every or only the first open; failed escalation inside the platform's / an escalating "
                "on_open (errors-family auth devices); failing user on_open x on_close hooks; set-up line muted with timeout_ops armed; healthy} "
                "x body of 0-3 operations x 0-3 later get_prompt / send_command / open / close / further with-blocks on the same object; "
                "when a twin-diff obligation breaks: focus_search = the families mapped to "
                "the changed function (c06_pairs.FN_FAMILY) on the driver kinds that reach it, up to 8 (thorough 24) extra seeds; "
                "telnet: grammar + malformed streams, every single cut + 1-byte + random cuts, both real transports; "
                "non-trivial = the device executed at least one line / more than one event / at least one command; "
                "distinct = whole scenario")
    rep.extra_assumptions = [
        "asyncio scheduler, wait_for cancellation and thread/signal timing are observed, not modelled",
        "time in the timeout scenarios is scripted (c06_pairs.VirtualLoop clock for asyncio.wait_for / sleep; c06_pairs.VSignal / VTime "
        "in place of scrapli.decorators' signal / time modules for the sync SIGALRM timer), device latency is paid inside the transports' reads",
        "token normaliser parameters (drop async/await; twin-name rename table) and the committed difference list harness/c06_allowed.json",
    ]


def replay(path):
    warnings.simplefilter("ignore")
    r = json.load(open(path))
    suite = r.get("suite")
    if suite == "twin-diff":
        from . import c06_pairs as P
        sc = r["scenario"]
        a, b = P.run_sync(sc), P.run_async_batch([sc])[0]
        d = P.diff_obs(a, b)
        print("scenario:", json.dumps(sc))
        for stack, o in (("sync", a), ("asyncio", b)):
            for x in o.get("isolation") or []:
                print(" isolation expectation fails in the %s stack: %s" % (stack, x))
        for k in d:
            print(" differs in %s:\n   sync   : %s\n   asyncio: %s" % (k, json.dumps(a[k])[:1500], json.dumps(b[k])[:1500]))
        print("property FAILS on this input" if d else "property holds on this input")
        return 1 if d else 0
    if suite == "login":
        d, res = _login_differs(r)
        print(json.dumps(res, indent=1))
        print("property FAILS on this input" if d else "property holds on this input")
        return 1 if d else 0
    if suite == "twin-signatures":
        from gen import gen_twins
        import tempfile
        _, info = gen_twins.generate(tempfile.mkdtemp(), common.REPO)
        bad = 0
        for sc, t in info["class_tables"].items():
            if r["class"] in (sc, t.get("async_name")):
                s_, a_ = t["sync"].get(r["attr"]), t["async"].get(r["attr"])
                print("%s.%s\n  sync   : %r\n  asyncio: %r" % (sc, r["attr"], s_, a_))
                if s_ is None or a_ is None or s_[0] != a_[0] or s_[2] != a_[2]:
                    bad = 1
        print("property FAILS on this input" if bad else "property holds on this input")
        return bad
    if suite == "telnet-twins":
        from . import c15
        chunks = [bytes.fromhex(x) for x in r["chunks"]]
        rs, ra = c15.run_sync(chunks), c15.run_async(chunks)
        print("chunks:", chunks, "\n sync   :", rs, "\n asyncio:", ra)
        print("property FAILS on this input" if rs != ra else "property holds on this input")
        return 1 if rs != ra else 0
    if suite in ("probe-open-refused", "probe-login-timeout-ops-0"):
        rep = common.Report("C06", "quick", 0)
        rep.findings = []
        (probe_open_refused if suite == "probe-open-refused" else probe_login_timeout_ops_zero)(rep)
        print(json.dumps({k: v for k, v in rep.coverage.items() if k.startswith("probe")}, indent=1))
        print("property FAILS on this input" if rep.violations else "property holds on this input")
        return 1 if rep.violations else 0
    print("nothing to replay (no concrete input): %s" % r.get("what"))
    return 1


MANIFEST = {
    "text": "Coq (props/C06.v, axiom-free): (1) sigs_ok_sound / fns_ok_sound / allowed_exact_sound — the vm_compute-decided tables regenerated "
            "from the source imply, for all 11 class pairs (channel, base/generic/network drivers, five platform drivers, the two Telnet "
            "transports + their argument classes), that every public attribute of the sync class exists on the asyncio class with the same "
            "kind and parameter list (names, order, kinds incl. keyword-only, defaults) and conversely, and that each of the 77 paired functions "
            "(75 of the module pairs + the function / coroutine variants of the two decorators of scrapli/decorators.py) is token-identical after dropping async/await and renaming twin names, or is on the committed difference list "
            "(harness/c06_allowed.json, reason + class per entry) with exactly the reviewed diff hash; the list has no stale entry. "
            "(2) auth_stutter_invariant and login_sync_eq_async: for ALL match predicates that reject the empty buffer, ALL answers and ALL read "
            "histories, inserting empty reads / poll expiries anywhere changes neither the writes nor the outcome of the login loop, hence "
            "the polling asyncio loop equals the blocking sync loop; the pinned commit's asyncio loop (no except ScrapliConnectionError) is "
            "refuted by a vm_compute witness, with the partial statement for error-free histories. "
            "PARTIAL: equality of bytes sent / results / exception classes of the full driver stacks is OBSERVED on paired SimDevice scenarios "
            "(ops x devices x chunkings x faults, incl. multi-event interactive dialogues: repeated expected responses, "
            "interaction_complete_patterns, questions the device skips with events still queued, hidden inputs; command / config lists "
            "with repeated entries under eager on / off through send_commands / send_configs / send_config / the *_from_file variants, "
            "incl. lines after which the device prints no prompt; per-call timeout_ops values x connection timeout_ops x device latency "
            "on every send_* operation, so that one stack timing out and the other not is a difference in results; error paths: failed "
            "privilege escalation with a wrong / empty / missing auth_secondary against devices that re-prompt, refuse or hang, refused / "
            "ignored / unanswered de-escalation, failing on_open / on_close hooks, with timeout_ops armed — compared by exception type, "
            "message class, explicit cause chain, bytes written, cached privilege level, device mode, transport state and the outcome of "
            "the operations / the re-open that follow; send_and_read / send_input_and_read with plain / metacharacter / pattern "
            "expected_outputs against streaming answers, compared by where each stack stops reading; escape sequences cut at every "
            "position by the transport, the chunk behind the cut with and without a further ESC; two objects of each platform driver in "
            "one process, a default privilege level of the first edited in place — here the oracle is also the isolation expectation: "
            "in EACH stack the second object's levels and observations equal those without the edit; the context-manager form "
            "`with drv:` / `async with drv:` against a refused or hanging in-band login, a failing transport open (incl. refused credentials = "
            "ScrapliAuthenticationFailed), a failed escalation or failing hook inside on_open, a timeout during open and the healthy case — "
            "what __enter__ / __exit__ raise (type, message class, explicit cause chain), bytes written, transport / isalive / privilege "
            "state afterwards, later operations and re-entered blocks), on both real Telnet "
            "transports over scripted sockets and by two runtime probes, comparing the two stacks with each other; it is not a theorem. "
            "A broken twin-diff obligation for function F triggers a search over the scenario families that exercise F with extra seeds.",
    "note": "Trusted: Coq kernel + vm_compute; gen/gen_twins.py (inspect/ast/tokenize of the current tree; the diff hash is computed there); the "
            "normaliser parameters (drop async/await, 15-name rename table) and the reviewed reasons in c06_allowed.json — a function on that list is "
            "only protected by its diff hash and by the behavioural suites; the login model coq/model/Twins.v is tied to the real "
            "channel_authenticate_telnet/_ssh of both stacks by vm_compute correspondence on generated event lists with a scripted clock and real "
            "20 ms wait_for expiries (patterns restricted to literals; regexes are C09's). The interactive-dialogue scenarios (send_interactive / send_inputs_interact over "
            "c06_pairs.DialogDevice) are oracle-only: there is no Coq model of the interact loop, its sync/asyncio equality rests on the token "
            "identity obligation of Channel.send_inputs_interact plus the direct comparison of the two real stacks; the function -> scenario "
            "family map (c06_pairs.FN_FAMILY) is hand-written, an unmapped function gets every family. The repeated-entry lists and the "
            "timeout scenarios are oracle-only as well (no Coq model of send_commands' eager selection or of the timeout decorators; the "
            "decorators' two variants are in the twin table: timeout_modifier token-identical, timeout_wrapper on the difference list). "
            "Time in the timeout scenarios is scripted, not real: the asyncio batch runs on an event loop whose clock jumps to the next "
            "timer when the loop would block (asyncio.wait_for / sleep unchanged), the sync decorator's `signal` and `time` module "
            "attributes are replaced by a scripted SIGALRM timer whose handler is called from the transport's blocking read when the "
            "device's latency passes the deadline; the worker-thread variant of the sync timeout (system / telnet transports, non-main "
            "threads) is not exercised. The error-path scenarios (family errors) are oracle-only as well: there is no Coq model of "
            "acquire_priv / _escalate / _deescalate / open's hook handling; their sync/asyncio equality rests on the token identity "
            "obligations of those functions plus the direct comparison of the two real stacks. In them silence of the device is a "
            "scripted wait of 1e6 s (sync: the scripted SIGALRM clock is advanced inside the blocking read; asyncio: asyncio.sleep on "
            "the virtual loop), which an armed timeout_ops ends through the real decorators; with timeout_ops = 0 it still ends as "
            "Starved (blocks for ever). The message class of an exception is its text with quoted names / numbers / the async prefix "
            "removed, compared between the two stacks only (never with a literal); of the cause chain only explicit `raise ... from` "
            "links are compared (the implicit context of a timeout differs by construction). User hooks are a fixed set of named "
            "functions (c06_pairs._hook_steps). The round-7 families are oracle-only as well: there is no Coq model of "
            "_read_until_prompt_or_time's stop condition (expected_outputs as substrings and as one joined regex), of Channel.read's "
            "escape-sequence hold-back / strip, or of the drivers' constructors; their sync/asyncio equality rests on the token "
            "identity obligations of those functions plus the direct comparison of the two real stacks. Where an escape sequence "
            "ends is decided in the harness by the ECMA-48 grammar (c06_pairs.esc_seq_len), not by scrapli's patterns; the result "
            "texts are compared between the stacks only (whether a sequence SHOULD be stripped is not judged here). In the "
            "two-object histories the isolation expectation (second object's privilege levels == those of an object constructed "
            "before the edit; its observations == a control run of the same history without the edit) is checked per stack, so a "
            "change made to both twins alike is still a failure; edits are setattr / list.append on the first object's "
            "PrivilegeLevel objects and are undone on those same objects at the end of the run, and these histories are never "
            "interleaved with other scenarios in the asyncio batch. The with_open scenarios (round 9) are oracle-only as well: there is no Coq model of "
            "Driver.__enter__ / __exit__ / open; their sync/asyncio equality rests on the token identity obligations of those functions "
            "plus the direct comparison of the two real stacks. Their in-band login runs the real channel_authenticate_telnet of both "
            "stacks against c06_pairs.DialogDevice's login dialogue (login: / Password: / Login incorrect, re-asking for ever; never "
            "closing the connection: the login loops answer an EOF with a return for ever) with timeout_ops 0 or 200.1 only — the asyncio "
            "login loop sleeps 0.1 s per iteration (committed difference, auth read polling) while a scripted sync read costs no time, "
            "so a small timeout_ops would expire in the asyncio stack alone by construction of the scripted clock; transport open "
            "failures are injected exceptions of the scripted transports (c06_pairs.OpenFaultMixin), not real sockets; a failing "
            "operation inside the block is caught inside it (an exception leaving the body through __exit__ is not generated). "
            "read_duration is 120 real seconds in every and_read call, so "
            "the wall-clock stop condition of _read_until_prompt_or_time never fires (a stream that neither matches nor ends is "
            "observed as Starved = blocks for ever). Not modelled: asyncio scheduler, cancellation inside "
            "transport reads, signal/thread timeouts, real sockets. Known findings (listed, still reported): sync Telnet stops answering after 10 "
            "negotiation commands while asyncio keeps answering; a refused Telnet connection raises ScrapliConnectionNotOpened (sync) vs "
            "ScrapliConnectionError (asyncio); timeout_ops expiring inside send_and_read raises ScrapliConnectionNotOpened (sync: the "
            "handler's ScrapliTimeout is swallowed by the read loop's suppress) vs ScrapliTimeout (asyncio).",
    "technique": "reflection (boolean decision procedures proved sound, run by vm_compute over tables regenerated from the source) + invariant proof "
                 "(settled buffer) for stutter invariance of the login loops + differential execution of the sync and asyncio stacks",
}
