"""C11 — close() and context-manager exit always release the connection.

proof: coq/proofs/Lifecycle_Proofs.v (close_releases / with_releases / history_releases / close_idempotent /
reopen_ok for EVERY history, hook and device outcome), applied in props/C11.v to the programs that
gen/gen_lifecycle.py translates from the current source (Gen_Lifecycle.v).
tie: (1) Gen_Lifecycle.v regenerated on every run; (2) correspondence `lifecycle`: real drivers (5 platforms +
generic + network, sync and asyncio) over SimDevice with the device dying / stalling at enumerated reads and
writes of every phase, compared op by op with the model's trace (vm_compute); (3) correspondence `telnet-reopen`:
both real Telnet transports over scripted sockets across close()/open(), compared with tn_sessions;
(4) an independent oracle on the implementation (transport flag, channel-log handle, /proc/self/fd, threads,
children); (5) real sockets (loopback Telnet device) and a real pty child (system transport); (6) suite `pty-child`
(harness/c11_pty.py): the real SystemTransport/PtyProcess under the real sync drivers against /bin/sh stand-ins that
exit by themselves at a chosen point, against stand-ins that are STILL RUNNING at close() and ignore SIGHUP / SIGINT /
both / SIGTERM too (wedged ssh wrapper: only the SIGKILL escalation of PtyProcess.close() gets rid of them) and against an
ssh that cannot be exec'd, observed through /proc (children in any state, fds) — the facts about ptyprocess.py that Gen_Lifecycle.v carries (close() reaps in every state, spawn() owns
what the fork created before anything can raise) are obligations of props/C11.v; (7) suite `two-conn`
(harness/c11_two.py, ORACLE-ONLY): histories over TWO real driver objects — B.commandeer(A) with either / both / none of
them writing a channel_log file, closed through B only / A only / both in both orders (+ re-open); nested with-blocks of two
connections with the inner one stalling / dropping / raising; Settings.NO_TERMINATE_ON_TIMEOUT — on SimDevice (sync and
asyncio) and on real loopback sockets / a real pty child, with identity-tracked log file objects and /proc/self/fd;
(8) suite `ssh-open` (harness/c11_ssh.py, ORACLE-ONLY): every failure point of AsyncsshTransport.open() and
ParamikoTransport.open() (connect / handshake / host key / authentication / open_session / pty / shell) on recording stub
library objects and on in-process loopback ssh servers — whatever open() acquired before the failing step is released
at the with-block exit / after close(), and the connection opens again; the pty-child suite also opens OVER an existing
session (open, open; open, with; re-open after a device drop) and observes every child the connection ever started;
(9) CANCELLATION histories (gen_cancel, ORACLE-ONLY, asyncio): the device goes quiet for good with no scrapli timeout running and
the awaiting close() / __aexit__ / open() / operation is cancelled from outside (asyncio.wait_for expiring, task.cancel() once and
twice) — after close() / the with-block, however it ended, transport flag, isalive, channel-log handle and fds are released."""
import asyncio
import json
import os
import shutil
import sys
import tempfile

from . import common
from . import c11_lib as L
from . import c11_pty as P
from . import c11_two as T
from . import c11_ssh as S
from .common import coq_bool, coq_bytes, coq_list

LEVEL = "proof"
SOURCES = ["scrapli/driver/base/sync_driver.py", "scrapli/driver/base/async_driver.py",
           "scrapli/channel/base_channel.py", "scrapli/decorators.py", "scrapli/settings.py",
           "scrapli/transport/plugins/telnet/transport.py", "scrapli/transport/plugins/asynctelnet/transport.py",
           "scrapli/transport/plugins/system/transport.py", "scrapli/transport/plugins/system/ptyprocess.py",
           "scrapli/transport/plugins/asyncssh/transport.py", "scrapli/transport/plugins/paramiko/transport.py",
           "scrapli/transport/base/base_socket.py"] + \
          ["scrapli/driver/core/%s/%s_driver.py" % (p, s) for p in L.PLATFORMS for s in ("sync", "async")]

EXC_MODEL = {"ScrapliConnectionNotOpened": "ENotOpened", "ScrapliConnectionError": "EConnError",
             "ScrapliTimeout": "ETimeout", "ScrapliAuthenticationFailed": "EAuthFailed"}
USER_EXC_NAMES = [c.__name__ for c in L.USER_EXC] + ["FileNotFoundError"]


def exc_term(name):
    if name in EXC_MODEL:
        return EXC_MODEL[name]
    if name in USER_EXC_NAMES:
        return "(EOther %d)" % USER_EXC_NAMES.index(name)
    return "(EOther 99)"


def res_term(name):
    return "Normal" if name == "ok" else "(Raised %s)" % exc_term(name)


# ------------------------------------------------------------------------------------------------
# suite `lifecycle`: real drivers over the simulated device
# ------------------------------------------------------------------------------------------------
def _platform_of(kind):
    return kind if kind in L.PLATFORMS else ("cisco_iosxe" if kind == "network" else "generic")


def _hook_arg(spec, stack):
    if spec in ("default", None):
        return None
    return L.user_hook(stack, spec.get("interact", False), spec.get("fail"))


class Scenario:
    """runs one history against a real driver; returns per-op observations (JSON-able)"""

    def __init__(self, sc, tmpdir):
        self.sc = sc
        self.tmp = tmpdir
        kind, stack = sc["kind"], sc["stack"]
        plat = _platform_of(kind)
        self.factory = lambda: L.SimDevice(plat, outputs={"show version": b"v1\nline2"})
        kw = {}
        self.logpath = None
        if sc.get("log") == "file":
            self.logpath = os.path.join(tmpdir, "chan_%d.log" % sc.get("n", 0))
            kw["channel_log"] = self.logpath
        elif sc.get("log") == "bad":
            self.logpath = os.path.join(tmpdir, "no-such-dir", "chan.log")
            kw["channel_log"] = self.logpath
        for name in ("on_open", "on_close"):
            h = _hook_arg(sc.get(name, "default"), stack)
            if h is not None:
                kw[name] = h
        self.d = L.make_fault_driver(kind, stack, self.factory, tuple(sc.get("policy", ("whole",))), **kw)
        self.t = self.d.transport
        self.r = L.ARunner(stack)
        self.has_open_hook = self.d.on_open is not None
        self.has_close_hook = self.d.on_close is not None
        # histories with cancellation faults: asyncio only (fault kind "hang" + op["cancel"]: "task" | "wait_for")
        self.cancellable = bool(sc.get("cancellable")) and stack == "async"
        self.stats = None

    # -- the operations ------------------------------------------------------------------------
    def _call(self, fn, op):
        """cancellable histories (asyncio): the call runs as a task that is cancelled whenever the silent device makes it
        wait for ever (L.ARunner.call_cancelling); everything else: a plain call"""
        if self.cancellable:
            try:
                _, self.stats = self.r.call_cancelling(fn, self.t, how=op.get("cancel") or "task")
            except BaseException as e:  # noqa
                self.stats = getattr(e, "_c11_stats", None)
                raise
        else:
            self.r.call(fn)

    def _operate(self, conn, phase, op=None):
        prev, self.t.phase = self.t.phase, phase
        try:
            if self.cancellable:
                return self._call(lambda: conn.send_command("show version"), op or {})
            return self.r.call(conn.send_command, "show version")
        finally:
            self.t.phase = prev

    def _with(self, op):
        d, t = self.d, self.t
        body_exc = op.get("body_exc")
        n = op.get("body_ops", 1)
        if self.sc["stack"] == "sync":
            with d as conn:
                for _ in range(n):
                    self._operate(conn, "body")
                if body_exc:
                    raise L.exc_by_name(body_exc)("body failure")
        else:
            async def go():
                async with d as conn:
                    for _ in range(n):
                        prev, t.phase = t.phase, "body"
                        try:
                            await conn.send_command("show version")
                        finally:
                            t.phase = prev
                    if body_exc:
                        raise L.exc_by_name(body_exc)("body failure")
            if self.cancellable:
                self._call(go, op)
            else:
                self.r.loop.run_until_complete(go())

    def run(self):
        from scrapli.settings import Settings
        saved = Settings.NO_TERMINATE_ON_TIMEOUT
        Settings.NO_TERMINATE_ON_TIMEOUT = bool(self.sc.get("no_terminate"))
        try:
            return self._run()
        finally:
            Settings.NO_TERMINATE_ON_TIMEOUT = saved

    def _run(self):
        obs = []
        t, d = self.t, self.d
        fd0 = L.fd_snapshot()
        th0 = L.threads()
        for op in self.sc["ops"]:
            t.fired = None
            t.count = {}
            t.armed = op.get("fault")
            dead_before = t.dead
            if op.get("open_fail"):
                t.open_fail = L.exc_by_name(op["open_fail"])
            res = "ok"
            self.stats = None
            try:
                if op["op"] == "open":
                    self._call(d.open, op)
                elif op["op"] == "close":
                    self._call(d.close, op)
                elif op["op"] == "operate":
                    self._operate(d, "operate", op)
                elif op["op"] == "with":
                    self._with(op)
                else:
                    raise ValueError(op["op"])
            except asyncio.CancelledError:
                if not self.cancellable:
                    raise
                res, scrapli_exc = "CancelledError", False     # the operation ended by being cancelled
            except Exception as e:  # noqa  (BaseExceptions — Starved — are harness failures and propagate)
                res = type(e).__name__
                import scrapli.exceptions as se
                scrapli_exc = isinstance(e, se.ScrapliException)
            else:
                scrapli_exc = None
            t.armed = None
            t.open_fail = None
            cl = d.channel.channel_log
            fds = L.fd_snapshot()
            obs.append({
                "res": res, "scrapli_exc": scrapli_exc, "t_open": bool(t.opened), "isalive": bool(d.isalive()),
                "log_open": bool(cl is not None and not cl.closed),
                "log_fds": sum(1 for v in fds.values() if self.logpath and v == self.logpath),
                "new_fds": sorted(L.fd_new(fd0, fds, ignore=("anon_inode", "pipe:", "/dev/null")).values()),
                "new_threads": [x for x in L.threads() if x not in th0],
                "fired": list(t.fired) if t.fired else None, "dead_before": bool(dead_before),
                "counts": {k: list(v) for k, v in t.count.items() if k},
                "sessions": t.sessions,
            })
            if self.cancellable:
                obs[-1]["hangs_ended"] = dict(self.stats) if self.stats else None
        # tear-down (after the last observation; NOT under test): a history may legitimately end with the connection open
        # (last op open / a failed on_open): close what it left so that no handle of THIS scenario is around when the next one
        # (or a shrink candidate, which re-uses the log path) counts its fds
        try:
            cl = self.d.channel.channel_log
            if cl is not None and not cl.closed:
                cl.close()
        except Exception:  # noqa
            pass
        self.r.close()
        import gc
        gc.collect()
        return obs


def _dev_step(dead, fired, phase, nt=False):
    """nt: Settings.NO_TERMINATE_ON_TIMEOUT — the timeout raises and leaves the transport open"""
    if dead:
        return "SDrop T", True
    if fired and fired[0] == phase:
        if fired[1] in ("drop", "wdrop"):
            return "SDrop T", True
        return ("SStallOpen T" if nt else "SStall T"), False
    return "SOk T", False


def _hook_steps(spec, has_hook, phase, dead, fired, nt=False):
    """model steps of a hook; returns (coq term for option (list step), dead')"""
    if not has_hook:
        return "None", dead
    if spec in ("default", None):
        s, dead = _dev_step(dead, fired, phase, nt)
        return "(Some [%s])" % s, dead
    steps = []
    if spec.get("interact"):
        s, dead = _dev_step(dead, fired, phase, nt)
        steps.append(s)
    if spec.get("fail"):
        steps.append("SFail %s" % exc_term(spec["fail"]))
    return "(Some %s)" % coq_list(steps), dead


def model_ops(sc, obs, has_open_hook, has_close_hook):
    """the history as model ops; the device outcomes (which interaction failed how) come from what the
    scripted transport did, everything else from the scenario"""
    terms = []
    nt = bool(sc.get("no_terminate"))
    logcfg = coq_bool(sc.get("log") in ("file", "bad"))
    copen = "(Raised (EOther %d))" % USER_EXC_NAMES.index("FileNotFoundError") if sc.get("log") == "bad" else "Normal"
    for op, o in zip(sc["ops"], obs):
        fired = o["fired"]
        if op["op"] in ("open", "with"):
            dead = False
            topen = res_term(op["open_fail"]) if op.get("open_fail") else "Normal"
            h_open, dead = _hook_steps(sc.get("on_open", "default"), has_open_hook, "on_open", dead, fired, nt)
            body = []
            if op["op"] == "with":
                if op.get("body_ops", 1) > 0:
                    s, dead = _dev_step(dead, fired, "body", nt)
                    body.append(s)
                if op.get("body_exc"):
                    body.append("SFail %s" % exc_term(op["body_exc"]))
            h_close, dead = _hook_steps(sc.get("on_close", "default"), has_close_hook, "on_close", dead, fired, nt)
            env = "(mkE %s %s %s [] %s %s)" % (logcfg, topen, copen, h_open, h_close)
            terms.append("OOpen %s" % env if op["op"] == "open" else "OWith %s %s" % (env, coq_list(body)))
        elif op["op"] == "operate":
            s, _ = _dev_step(o["dead_before"], fired, "operate", nt)
            terms.append("OOperate [%s]" % s)
        elif op["op"] == "close":
            h_close, _ = _hook_steps(sc.get("on_close", "default"), has_close_hook, "on_close", o["dead_before"], fired, nt)
            terms.append("OClose (mkE %s Normal Normal [] None %s)" % (logcfg, h_close))
    return terms


def oracle(sc, obs):
    """the property, decided on the implementation's observations only.  returns list of (op index, what)"""
    bad = []
    released = True          # nothing is held before the first operation
    for i, (op, o) in enumerate(zip(sc["ops"], obs)):
        held = []
        if o["t_open"] or o["isalive"]:
            held.append("transport open")
        if o["log_open"] or o["log_fds"]:
            held.append("channel log handle open (%d fd)" % o["log_fds"])
        if op["op"] in ("close", "with"):
            if held:
                bad.append((i, "release", "after %s (%s): %s" % (op["op"], o["res"], ", ".join(held))))
            if o["new_threads"]:
                bad.append((i, "release", "after %s: threads left %s" % (op["op"], o["new_threads"])))
            if o["new_fds"]:
                bad.append((i, "release", "after %s: file descriptors left %s" % (op["op"], o["new_fds"])))
        own = sc.get("on_close", "default")
        hook_raises = isinstance(own, dict) and own.get("fail")     # the user's hook raises by itself, every time
        if op["op"] == "close" and released and o["res"] != "ok" and not o["scrapli_exc"] and not hook_raises:
            bad.append((i, "repeat", "close() of a closed connection raised %s (not a scrapli exception)" % o["res"]))
        if op["op"] in ("open", "with") and released and _clean_open(sc, op) and not o["fired"]:
            if op["op"] == "open" and (o["res"] != "ok" or not o["t_open"]):
                bad.append((i, "reopen", "open() of a closed connection: %s, transport open=%s" % (o["res"], o["t_open"])))
            if op["op"] == "with" and o["res"] != (op.get("body_exc") or "ok"):
                bad.append((i, "reopen", "with-block on a closed connection: %s" % o["res"]))
        released = not held
    return bad


def _clean_open(sc, op):
    def fails(spec):
        return isinstance(spec, dict) and spec.get("fail")
    if op.get("open_fail") or sc.get("log") == "bad" or fails(sc.get("on_open", "default")):
        return False
    if op["op"] == "with" and fails(sc.get("on_close", "default")):
        return False
    return True


# -- generators ----------------------------------------------------------------------------------
FAULT_KINDS = ["drop", "stall", "wdrop"]
PHASE_COUNTS = {}   # (kind, phase) -> (reads, writes), measured on a fault-free run


def measure_counts(tmpdir):
    for kind in L.KINDS:
        sc = {"kind": kind, "stack": "sync", "log": None,
              "ops": [{"op": "open"}, {"op": "operate"}, {"op": "close"}]}
        obs = Scenario(sc, tmpdir).run()
        for o in obs:
            for ph, c in o["counts"].items():
                PHASE_COUNTS[(kind, ph)] = tuple(c)
        PHASE_COUNTS[(kind, "body")] = PHASE_COUNTS.get((kind, "operate"), (2, 2))


def fault_points(kind, phase):
    r, w = PHASE_COUNTS.get((kind, phase), (0, 0))
    pts = [("drop", k) for k in range(1, r + 1)] + [("stall", k) for k in range(1, r + 1)] + \
          [("wdrop", k) for k in range(1, w + 1)]
    return pts


def enumerated(rng, thorough):
    """the device dying / stalling at every read and write of every phase, around close and with-blocks"""
    out = []
    for kind in L.KINDS:
        for stack in ("sync", "async"):
            for phase in ("on_open", "operate", "body", "on_close"):
                pts = fault_points(kind, phase)
                if not thorough and len(pts) > 3:
                    pts = [pts[0]] + rng.sample(pts[1:], 2)
                for fk, at in pts:
                    f = {"phase": phase, "kind": fk, "at": at}
                    log = rng.choice(["file", "file", None])
                    if phase == "on_open":
                        out.append({"kind": kind, "stack": stack, "log": log, "ops": [
                            {"op": "with", "fault": f}, {"op": "open"}, {"op": "operate"}, {"op": "close"}]})
                        out.append({"kind": kind, "stack": stack, "log": log, "ops": [
                            {"op": "open", "fault": f}, {"op": "close"}, {"op": "close"}, {"op": "open"}, {"op": "close"}]})
                    elif phase == "operate":
                        out.append({"kind": kind, "stack": stack, "log": log, "ops": [
                            {"op": "open"}, {"op": "operate", "fault": f}, {"op": "close"}, {"op": "close"},
                            {"op": "open"}, {"op": "operate"}, {"op": "close"}]})
                    elif phase == "body":
                        out.append({"kind": kind, "stack": stack, "log": log, "ops": [
                            {"op": "with", "fault": f, "body_ops": 1}, {"op": "with", "body_ops": 1}]})
                    else:
                        out.append({"kind": kind, "stack": stack, "log": log, "ops": [
                            {"op": "open"}, {"op": "operate"}, {"op": "close", "fault": f}, {"op": "close"},
                            {"op": "open"}, {"op": "close"}]})
                        out.append({"kind": kind, "stack": stack, "log": log, "ops": [
                            {"op": "with", "fault": f, "body_ops": 1, "body_exc": rng.choice([None, "ValueError"])},
                            {"op": "open"}, {"op": "close"}]})
    return out


def gen_fault(rng, kind, phase):
    pts = fault_points(kind, phase)
    if not pts or rng.random() < 0.45:
        return None
    fk, at = rng.choice(pts)
    return {"phase": phase, "kind": fk, "at": at}


def gen_hook(rng):
    x = rng.random()
    if x < 0.55:
        return "default"
    return {"interact": rng.random() < 0.6, "fail": rng.choice([None, "ValueError", "RuntimeError", "KeyError", "OSError",
                                                                "ScrapliTimeout", "ScrapliConnectionError"])}


def gen_history(rng, malformed=False):
    kind = rng.choice(L.KINDS)
    sc = {"kind": kind, "stack": rng.choice(["sync", "async"]), "log": rng.choice(["file", "file", None, "bad"]) if not malformed else rng.choice(["file", None]),
          "on_open": gen_hook(rng), "on_close": gen_hook(rng),
          "policy": rng.choice([("whole",), ("bytes", 1), ("bytes", 3), ("random", rng.randint(0, 999), 7)]), "ops": []}
    n = rng.randint(2, 7)
    is_open = False
    for _ in range(n):
        if malformed:
            k = rng.choice(["open", "close", "close", "operate", "with", "operate"])
        elif not is_open:
            k = rng.choice(["open", "open", "with", "with", "close"])
        else:
            k = rng.choice(["operate", "operate", "close", "close", "close"])
        op = {"op": k}
        if k == "open":
            if rng.random() < 0.15:
                op["open_fail"] = rng.choice(["ScrapliConnectionError", "ScrapliAuthenticationFailed", "ScrapliConnectionNotOpened", "OSError"])
            else:
                op["fault"] = gen_fault(rng, kind, "on_open") if rng.random() < 0.4 else None
            is_open = True        # even a failed open leaves things to close
        elif k == "with":
            if rng.random() < 0.12:
                op["open_fail"] = rng.choice(["ScrapliConnectionError", "ScrapliAuthenticationFailed", "OSError"])
            op["body_ops"] = rng.choice([0, 1, 1, 2])
            op["body_exc"] = rng.choice([None, None, "ValueError", "KeyError", "ScrapliTimeout"])
            ph = rng.choice(["on_open", "body", "body", "on_close", "on_close"])
            op["fault"] = gen_fault(rng, kind, ph)
            is_open = False
        elif k == "operate":
            op["fault"] = gen_fault(rng, kind, "operate") if rng.random() < 0.4 else None
        else:
            op["fault"] = gen_fault(rng, kind, "on_close")
            is_open = False
        if op.get("fault") is None:
            op.pop("fault", None)
        sc["ops"].append(op)
    return sc


def gen_no_terminate(seed, thorough):
    """Settings.NO_TERMINATE_ON_TIMEOUT histories (model step SStallOpen): a stall raises ScrapliTimeout and leaves the
    transport open — only close() / __exit__ release it.  Own generator stream: the other suites' streams do not move."""
    import random
    rng = random.Random("c11-no-terminate-%s" % seed)
    out = []
    for kind in L.KINDS:
        for stack in ("sync", "async"):
            log = rng.choice(["file", None])
            pts = [p for p in fault_points(kind, "body") if p[0] == "stall"]
            for fk, at in (pts if thorough else rng.sample(pts, 1)):
                out.append({"kind": kind, "stack": stack, "log": log, "no_terminate": True, "ops": [
                    {"op": "with", "fault": {"phase": "body", "kind": "stall", "at": at}, "body_ops": 1}, {"op": "with", "body_ops": 1}]})
            pts = [p for p in fault_points(kind, "operate") if p[0] == "stall"]
            for fk, at in (pts if thorough else rng.sample(pts, 1)):
                out.append({"kind": kind, "stack": stack, "log": log, "no_terminate": True, "ops": [
                    {"op": "open"}, {"op": "operate", "fault": {"phase": "operate", "kind": "stall", "at": at}}, {"op": "close"},
                    {"op": "close"}, {"op": "open"}, {"op": "close"}]})
    for _ in range(300 if thorough else 40):
        sc = gen_history(rng)
        sc["no_terminate"] = True
        out.append(sc)
    return out


SIG_AENTER = "c11-with-cancelled-in-aenter"
CANCEL_RES = ("CancelledError", "TimeoutError")


def _hang(phase, at=1):
    return {"phase": phase, "kind": "hang", "at": at}


def gen_cancel(seed, thorough):
    """asyncio histories with CANCELLATION faults (ORACLE-ONLY, own generator stream): the device goes quiet for good
    (fault kind "hang": connected, silent, no scrapli timeout running) and the awaiting call is cancelled from outside —
    `asyncio.wait_for(conn.close(), t)` expiring ("wait_for") or task.cancel() ("task"; at every further wait too, so a
    with-block whose body is cancelled is cancelled a second time inside __aexit__ -> close() -> on_close).
    Shapes per driver kind (default platform hooks; generic: a user hook that talks to the device):
      close() cancelled in on_close (wait_for | task), then close, re-open, close
      with-block: on_close waits (cancelled once: wait_for | task); body waits (cancelled twice: task,task | wait_for,task)
      open() cancelled in on_open, then close() (cancelled again: the device is still quiet), re-open, operate, close
      operate cancelled, then close() cancelled, close again
      with-block cancelled inside __aenter__ (open() -> on_open waiting; fixed finding %s), then open, operate, close"""
    import random
    rng = random.Random("c11-cancel-%s" % seed)
    out = []

    def at(kind, phase):
        r = PHASE_COUNTS.get((kind, phase), (1, 1))[0]
        return rng.randint(1, max(1, r)) if thorough or rng.random() < 0.5 else 1

    for kind in L.KINDS:
        base = {"kind": kind, "stack": "async", "cancellable": True}
        if kind == "generic":            # no default hooks: the user's hooks read the prompt
            base.update(on_open={"interact": True}, on_close={"interact": True})
            PHASE_COUNTS.setdefault((kind, "on_close"), (1, 1))
        hows = ["wait_for", "task"]
        shapes = []
        for how in hows:
            shapes.append([{"op": "open"}, {"op": "operate"}, {"op": "close", "fault": _hang("on_close", at(kind, "on_close")), "cancel": how},
                           {"op": "close"}, {"op": "open"}, {"op": "close"}])
            shapes.append([{"op": "with", "fault": _hang("on_close", at(kind, "on_close")), "cancel": how, "body_ops": rng.choice([0, 1]),
                            "body_exc": rng.choice([None, None, "ValueError"])}, {"op": "with", "body_ops": 1}])
            shapes.append([{"op": "with", "fault": _hang("body", at(kind, "body")), "cancel": how, "body_ops": 1}, {"op": "open"}, {"op": "close"}])
            shapes.append([{"op": "open", "fault": _hang("on_open", at(kind, "on_open")), "cancel": how}, {"op": "close", "cancel": rng.choice(hows)},
                           {"op": "open"}, {"op": "operate"}, {"op": "close"}])
            shapes.append([{"op": "open"}, {"op": "operate", "fault": _hang("operate", at(kind, "operate")), "cancel": how},
                           {"op": "close", "cancel": rng.choice(hows)}, {"op": "close"}])
            # cancelled while __aenter__ is still opening (fixed finding c11-with-cancelled-in-aenter): __aexit__ never runs
            shapes.append([{"op": "with", "fault": _hang("on_open", at(kind, "on_open")), "cancel": how, "body_ops": 1},
                           {"op": "open"}, {"op": "operate"}, {"op": "close"}])
        if not thorough:
            # every kind: both ways of cancelling close() and one with-block of each sort; the rest drawn
            keep = [0, 6, rng.choice([1, 7]), rng.choice([2, 8]), rng.choice([5, 11])] + rng.sample([3, 4, 9, 10], 1)
            shapes = [shapes[i] for i in sorted(set(keep))]
        for ops in shapes:
            out.append(dict(base, log=rng.choice(["file", "file", "file", None]), ops=ops,
                            policy=rng.choice([("whole",), ("bytes", 3), ("random", rng.randint(0, 999), 7)])))
    # random histories: any op may meet the quiet device; whatever waits is cancelled
    for _ in range(200 if thorough else 24):
        sc = gen_history(rng)
        sc.update(stack="async", cancellable=True)
        if sc["log"] == "bad":
            sc["log"] = "file"
        armed = False
        for op in sc["ops"]:
            f = op.get("fault")
            if f and (not armed or rng.random() < 0.5):
                f["kind"], f["at"] = "hang", min(f["at"], max(1, PHASE_COUNTS.get((sc["kind"], f["phase"]), (1, 1))[0]))
                armed = True
            op["cancel"] = rng.choice(["wait_for", "task"])
        out.append(sc)
    return out
gen_cancel.__doc__ = gen_cancel.__doc__ % SIG_AENTER


def in_aenter_region(sc, obs, i):
    """the listed finding's region: a with-block of a cancellable history that ended by being cancelled while __aenter__
    (open() -> on_open) was waiting for the device"""
    op, o = sc["ops"][i], obs[i]
    return bool(sc.get("cancellable") and op["op"] == "with" and o["res"] in CANCEL_RES and o["fired"]
                and tuple(o["fired"]) == ("on_open", "hang"))


HEADER_LC = """From Verif Require Import Bytes Telnet Lifecycle.
From Gen Require Import Gen_Lifecycle.
Definition T := t_init.
Definition exc_eqb (a b : exc) : bool :=
  match a, b with
  | ENotOpened, ENotOpened | EConnError, EConnError | ETimeout, ETimeout | EAuthFailed, EAuthFailed => true
  | EOther n, EOther m => (n =? m) | _, _ => false end.
Definition res_eqb (a b : res) : bool :=
  match a, b with Normal, Normal => true | Raised x, Raised y => exc_eqb x y | _, _ => false end.
Fixpoint obs_eqb (a b : list (bool * bool * res)) : bool :=
  match a, b with
  | [], [] => true
  | (t1, l1, r1) :: a', (t2, l2, r2) :: b' => Bool.eqb t1 t2 && Bool.eqb l1 l2 && res_eqb r1 r2 && obs_eqb a' b'
  | _, _ => false end.
Definition chk (c : bool * list op * list (bool * bool * res)) : bool :=
  let '(async, h, obs) := c in
  obs_eqb (trace (if async then gen_progs_async else gen_progs_sync) h (mkC false false T)) obs.
"""


def lc_case_term(sc, obs, ops_terms):
    o = coq_list(["(%s, %s, %s)" % (coq_bool(x["t_open"]), coq_bool(x["log_open"]), res_term(x["res"])) for x in obs])
    return "(%s, %s, %s)" % (coq_bool(sc["stack"] == "async"), coq_list(ops_terms), o)


def run_lifecycle_scenario(sc, tmpdir):
    s = Scenario(sc, tmpdir)
    obs = s.run()
    return obs, model_ops(sc, obs, s.has_open_hook, s.has_close_hook)


def oracle_signature(sc, obs, i, klass):
    if klass == "release" and in_aenter_region(sc, obs, i):
        return SIG_AENTER
    return "c11-%s" % klass


# ------------------------------------------------------------------------------------------------
# suite `telnet-reopen`: the two real Telnet transports across close()/open()
# ------------------------------------------------------------------------------------------------
class _Sock:
    def __init__(self, chunks):
        self.chunks = list(chunks)
        self.sent = []
        self.closed = False
        self.peer_gone = False

    def recv(self, n):
        if not self.chunks:
            raise L.Starved()
        b = self.chunks.pop(0)
        if not b:
            self.peer_gone = True      # the peer closed: a real socket stops being "alive"
        return b

    def send(self, b):
        self.sent.append(bytes(b))
        return len(b)

    def settimeout(self, t):
        pass

    def close(self):
        self.closed = True


class _FakeSocket:
    """stands in for scrapli.transport.base.base_socket.Socket (patched into the telnet plugin module)"""
    queue = []
    made = []

    def __init__(self, host, port, timeout):
        self.sock = None

    def open(self):
        self.sock = _Sock(_FakeSocket.queue.pop(0))
        _FakeSocket.made.append(self.sock)

    def isalive(self):
        return self.sock is not None and not self.sock.closed and not self.sock.peer_gone

    def close(self):
        if self.sock is not None:
            self.sock.close()


def _read_all(read, t, n, runner):
    out = []
    for _ in range(n + 2):
        try:
            b = runner(read)
        except L.Starved:
            break
        except Exception as e:  # noqa
            return b"".join(out), type(e).__name__
        out.append(b)
        if t._eof:
            break
    return b"".join(out), None


def telnet_sessions_sync(sessions):
    import scrapli.transport.plugins.telnet.transport as m
    from scrapli.transport.base.base_transport import BaseTransportArgs
    bta = BaseTransportArgs(transport_options={}, host="h", port=23, timeout_socket=0, timeout_transport=0)
    t = m.TelnetTransport(bta, m.PluginTransportArgs())
    real = m.Socket
    m.Socket = _FakeSocket
    _FakeSocket.queue = [list(s) for s in sessions]
    _FakeSocket.made = []
    res = []
    try:
        for chunks in sessions:
            t.open()
            sock = t.socket.sock
            data, exc = _read_all(t.read, t, len(chunks), lambda f: f())
            res.append({"data": data, "replies": b"".join(sock.sent), "exc": exc,
                        "counter": t._control_char_sent_counter, "eof": bool(t._eof)})
            t.close()
            res[-1]["handles_none"] = t.socket is None
            res[-1]["sock_closed"] = sock.closed
    finally:
        m.Socket = real
    return res


class _Reader:
    def __init__(self, chunks):
        self.chunks = list(chunks)

    async def read(self, n):
        if not self.chunks:
            raise L.Starved()
        return self.chunks.pop(0)

    def at_eof(self):
        return False


class _Writer:
    def __init__(self):
        self.sent = []
        self.closed = False

    def write(self, b):
        self.sent.append(bytes(b))

    def close(self):
        self.closed = True


def telnet_sessions_async(sessions):
    import scrapli.transport.plugins.asynctelnet.transport as m
    from scrapli.transport.base.base_transport import BaseTransportArgs
    bta = BaseTransportArgs(transport_options={}, host="h", port=23, timeout_socket=5, timeout_transport=0)
    t = m.AsynctelnetTransport(bta, m.PluginTransportArgs())
    queue = [list(s) for s in sessions]
    made = []

    async def fake_open_connection(host=None, port=None, **kw):
        rw = (_Reader(queue.pop(0)), _Writer())
        made.append(rw)
        return rw

    real = asyncio.open_connection
    loop = asyncio.new_event_loop()
    res = []
    asyncio.open_connection = fake_open_connection
    try:
        for chunks in sessions:
            loop.run_until_complete(t.open())
            w = t.stdin
            data, exc = _read_all(t.read, t, len(chunks), lambda f: loop.run_until_complete(f()))
            res.append({"data": data, "replies": b"".join(w.sent), "exc": exc,
                        "counter": t._control_char_sent_counter, "eof": bool(t._eof)})
            t.close()
            res[-1]["handles_none"] = t.stdin is None and t.stdout is None
            res[-1]["sock_closed"] = w.closed
    finally:
        asyncio.open_connection = real
        loop.close()
    return res


def gen_tn_sessions(rng):
    """token streams per session; the early sessions leave the transport dirty (limit reached, EOF, a
    command cut short, unread bytes), the later ones are plain grammar streams with a few commands"""
    from . import c15
    n = rng.choice([2, 2, 3])
    out = []
    for i in range(n):
        last = i == n - 1
        kind = "plain" if last else rng.choice(["limit", "eof", "partial", "plain", "limit_eof"])
        if kind in ("limit", "limit_eof"):
            toks = [("D", b"x")] + [("C", rng.choice([251, 252, 253, 254]), rng.choice([1, 3, 24, 31])) for _ in range(10)] + [("D", b"user:")]
        else:
            toks = c15.gen_tokens(rng, max_cmds=4)
            if not any(t[0] == "C" for t in toks):
                toks = [("C", 253, rng.choice([1, 3, 24]))] + toks
            if not any(t[0] == "D" and t[1] for t in toks):
                toks = toks + [("D", b"login:")]
        s = c15.tok_stream(toks)
        tail = b""
        if kind == "partial":
            tail = rng.choice([b"\xff", b"\xff\xfd"])
        cuts = sorted(rng.sample(range(1, len(s)), min(len(s) - 1, rng.choice([0, 1, 2, 3])))) if len(s) > 1 else []
        chunks = [c for c in common.cut(s, cuts) if c]
        if tail:
            chunks.append(tail)
        if kind in ("eof", "limit_eof"):
            chunks.append(b"")
        out.append({"kind": kind, "tokens": toks, "chunks": chunks})
    return out


HEADER_TN = """From Verif Require Import Bytes Telnet Lifecycle.
From Gen Require Import Gen_Lifecycle Gen_Telnet.
Fixpoint obs_eqb (a b : list (bytes * bytes * (nat * bool))) : bool :=
  match a, b with
  | [], [] => true
  | (d1, r1, (n1, e1)) :: a', (d2, r2, (n2, e2)) :: b' =>
      beq d1 d2 && beq r1 r2 && Nat.eqb n1 n2 && Bool.eqb e1 e2 && obs_eqb a' b'
  | _, _ => false end.
Definition chk (c : bool * list (list bytes) * list (bytes * bytes * (nat * bool))) : bool :=
  let '(async, ss, obs) := c in
  obs_eqb (tn_sessions (if async then gen_resets_async else gen_resets_sync) (negb async)
                       (if async then gen_limit_async else gen_limit_sync) t_init ss) obs.
"""


def tn_case_term(is_async, sessions, res):
    ss = coq_list([coq_list([coq_bytes(c) for c in s["chunks"]]) for s in sessions])
    obs = coq_list(["(%s, %s, (%d%%nat, %s))" % (coq_bytes(r["data"]), coq_bytes(r["replies"]), r["counter"], coq_bool(r["eof"]))
                    for r in res])
    return "(%s, %s, %s)" % (coq_bool(is_async), ss, obs)


def tn_oracle(sessions, res):
    """every session whose stream is a complete grammar stream must deliver exactly its data and answer every
    command (what C15 proves of a fresh transport), whatever the previous session left behind"""
    from . import c15
    bad = []
    for i, (s, r) in enumerate(zip(sessions, res)):
        if not (r["handles_none"] and r["sock_closed"]):
            bad.append((i, "close() left the socket handle: handles_none=%s closed=%s" % (r["handles_none"], r["sock_closed"])))
        if s["kind"] not in ("plain", "limit"):
            continue
        want = c15.spec(s["tokens"])
        if (r["data"], r["replies"]) != want or r["exc"]:
            bad.append((i, "session %d after re-open delivered %r (want %r), replied %r (want %r), exc %s" % (
                i, r["data"], want[0], r["replies"], want[1], r["exc"])))
    return bad


def tn_jsonable(sessions):
    return [{"kind": s["kind"], "tokens": [[t[0]] + [x.hex() if isinstance(x, bytes) else x for x in t[1:]] for t in s["tokens"]],
             "chunks": [c.hex() for c in s["chunks"]]} for s in sessions]


def tn_from_json(js):
    return [{"kind": s["kind"], "tokens": [tuple([t[0]] + [bytes.fromhex(x) if isinstance(x, str) else x for x in t[1:]]) for t in s["tokens"]],
             "chunks": [bytes.fromhex(c) for c in s["chunks"]]} for s in js]


# ------------------------------------------------------------------------------------------------
# suite `real-resources`: real sockets and a real pty child, observed through /proc
# ------------------------------------------------------------------------------------------------
STANDIN = r'''
import os, sys, time
sys.path.insert(0, %(verif)r); sys.path.insert(0, %(repo)r)
import tty
mode = sys.argv[1] if len(sys.argv) > 1 else "ok"
from harness.simdevice import SimDevice
tty.setraw(0)
dev = SimDevice("cisco_iosxe", outputs={"show version": b"v1"}, echo=True)
dev.start()
sent = 0
os.write(1, bytes(dev.out)); sent = len(dev.out)
got = 0
while True:
    b = os.read(0, 65535)
    if not b:
        break
    got += len(b)
    if mode == "silent":
        continue
    if mode == "die" and got > 20:
        os._exit(3)
    dev.feed(b)
    os.write(1, bytes(dev.out[sent:])); sent = len(dev.out)
    if dev.closed:
        break
'''


def real_scenarios(thorough):
    out = []
    for transport in ("telnet", "asynctelnet", "system"):
        for mode in ("ok", "silent", "die"):
            if (transport, mode) == ("asynctelnet", "die"):
                # outside this check: at EOF AsynctelnetTransport.read() returns b"" for ever and the channel's read
                # loop spins without yielding to the event loop (C08's finding) — the with-block never gets to exit
                continue
            for shape in ("close", "with", "with_exc"):
                out.append({"transport": transport, "mode": mode, "shape": shape})
    return out


def run_real(sc, tmpdir):
    """open a real connection (loopback TCP device or pty child), make the device go silent / die, leave through
    close() or a with-block, and look at /proc/self/fd, child processes and threads afterwards"""
    import scrapli.exceptions as se
    from scrapli.driver.core import AsyncIOSXEDriver, IOSXEDriver
    transport, mode, shape = sc["transport"], sc["mode"], sc["shape"]
    factory = lambda: L.SimDevice("cisco_iosxe", outputs={"show version": b"v1"})
    L.reap()
    import gc
    gc.collect()
    fd0, ch0, th0 = L.fd_snapshot(), L.children(), L.threads()
    srv = None
    logpath = os.path.join(tmpdir, "real_%s_%s_%s.log" % (transport, mode, shape))
    kw = dict(host="127.0.0.1", auth_bypass=True, timeout_socket=1, timeout_transport=1.0, timeout_ops=1.0,
              channel_log=logpath, transport=transport)
    if transport in ("telnet", "asynctelnet"):
        srv = L.LoopbackDevice(factory, negotiate=b"\xff\xfd\x18\xff\xfb\x01")
        kw["port"] = srv.port
        fd_srv = L.fd_snapshot()
    is_async = transport == "asynctelnet"
    d = (AsyncIOSXEDriver if is_async else IOSXEDriver)(**kw)
    if transport == "system":
        script = os.path.join(tmpdir, "standin_device.py")
        with open(script, "w") as f:
            f.write(STANDIN % {"verif": common.VERIF, "repo": common.REPO})
        d.transport.open_cmd = [sys.executable, script, "ok"]
    loop = asyncio.new_event_loop() if is_async else None
    call = (lambda f, *a: loop.run_until_complete(f(*a))) if is_async else (lambda f, *a: f(*a))
    events = []

    def sabotage():
        if mode == "ok":
            return
        if srv is not None:
            if mode == "silent":
                srv.mode = "silent"
            else:
                srv.drop_after = 1
        else:
            import signal
            pid = d.transport.session.pid
            os.kill(pid, signal.SIGSTOP if mode == "silent" else signal.SIGKILL)
            events.append(("child", pid))

    def body(conn):
        events.append(("cmd", call(conn.send_command, "show version").result))
        sabotage()
        if mode != "ok":
            try:
                call(conn.send_command, "show version")
                events.append(("cmd2", "ok"))
            except Exception as e:  # noqa
                events.append(("cmd2", type(e).__name__))

    res = "ok"
    try:
        if shape == "close":
            call(d.open)
            body(d)
            call(d.close)
        elif is_async:
            async def go():
                async with d as conn:
                    events.append(("cmd", (await conn.send_command("show version")).result))
                    sabotage()
                    if mode != "ok":
                        try:
                            await conn.send_command("show version")
                        except Exception as e:  # noqa
                            events.append(("cmd2", type(e).__name__))
                    if shape == "with_exc":
                        raise ValueError("body failure")
            loop.run_until_complete(go())
        else:
            with d as conn:
                body(conn)
                if shape == "with_exc":
                    raise ValueError("body failure")
    except Exception as e:  # noqa
        res = type(e).__name__
    # a second close must leave things released as well
    res2 = "ok"
    try:
        call(d.close)
    except Exception as e:  # noqa
        res2 = type(e).__name__
    if loop is not None:
        loop.run_until_complete(asyncio.sleep(0.05))
        loop.close()
    for kind, pid in events:
        if kind == "child":
            try:
                import signal
                os.kill(pid, signal.SIGCONT)
            except OSError:
                pass
    if srv is not None:
        srv.shutdown()
    fds = L.fd_snapshot()
    cl = d.channel.channel_log
    try:
        alive = bool(d.isalive())
    except Exception as e:  # noqa
        alive = "isalive raised %s" % type(e).__name__
    obs = {"res": res, "res2": res2, "events": [list(e) for e in events if e[0] != "child"],
           "log_open": bool(cl is not None and not cl.closed),
           "new_fds": sorted(L.fd_new(fd0, fds, ignore=("anon_inode",)).values()),
           "children": [c for c in L.children() if c not in ch0],
           "threads": [x for x in L.threads() if x not in th0],
           "isalive": alive, "handle": _handle_held(d.transport)}
    L.reap()
    return obs


def _handle_held(t):
    return [a for a in ("session", "socket", "stdin", "stdout", "session_channel") if getattr(t, a, None) is not None]


def real_oracle(sc, obs):
    bad = []
    if obs["handle"]:
        bad.append("transport still holds %s" % obs["handle"])
    if obs["new_fds"]:
        bad.append("file descriptors left open: %s" % obs["new_fds"])
    if obs["children"]:
        bad.append("child processes left: %s" % obs["children"])
    if obs["threads"]:
        bad.append("threads left: %s" % obs["threads"])
    if obs["log_open"]:
        bad.append("channel log handle open")
    if obs["isalive"]:
        bad.append("transport alive")
    return bad


def _pty_suite(rep, rng, thorough, tmpdir, corpus):
    import gc
    pdist = {"histories": 0, "sessions": 0, "release_points": 0, "release_points_after_raise": 0,
             "closes_after_eof_was_read": 0, "exec_failures_after_fork": 0, "opens_over_an_existing_session": 0,
             "sessions_of_a_child_ignoring": {}, "release_points_with_a_child_ignoring_HUP_and_INT": 0,
             "platforms": {}, "sessions_by_kind": {}}
    psc = [c["scenario"] for c in corpus if c.get("suite") == "pty-child"]
    psc += P.fixed_scenarios(rng, thorough)
    psc += [P.gen_history(rng) for _ in range(40 if thorough else 2)]
    import random
    psc += P.over_scenarios(random.Random("c11-pty-over-%s" % rep.seed), thorough)   # own stream: the others do not move
    psc += P.wedge_scenarios(random.Random("c11-pty-wedge-%s" % rep.seed), thorough)  # own stream as well
    seen = set()
    import time
    t0 = time.time()
    gc.collect()
    gc.freeze()              # the observers call gc.collect() at every op: keep the check's own heap out of it
    try:
        for sc in psc:
            obs = P.run_pty(sc, tmpdir)
            if not pdist["histories"]:
                rep.sample({"pty_history": sc, "observed": [{k: o[k] for k in ("res", "children", "fds", "session_held")} for o in obs]})
            pdist["histories"] += 1
            pdist["platforms"][sc["kind"]] = pdist["platforms"].get(sc["kind"], 0) + 1
            is_open = False
            for op in sc["ops"]:
                if op["op"] in ("open", "with") and is_open:
                    pdist["opens_over_an_existing_session"] += 1
                is_open = op["op"] == "open" or (is_open and op["op"] == "operate")
            for k in P.classify(sc, obs):
                pdist["sessions"] += 1
                pdist["sessions_by_kind"][k] = pdist["sessions_by_kind"].get(k, 0) + 1
            stubborn = False         # a child that ignores HUP and INT was started and no release point has come yet
            for op, o in zip(sc["ops"], obs):
                ign = (op.get("child") or {}).get("ignore") if op["op"] in ("open", "with") else None
                if ign is not None:
                    key = "+".join(ign) or "nothing (lingers)"
                    pdist["sessions_of_a_child_ignoring"][key] = pdist["sessions_of_a_child_ignoring"].get(key, 0) + 1
                    stubborn = stubborn or {"HUP", "INT"} <= set(ign)
                if op["op"] in ("close", "with"):
                    pdist["release_points_with_a_child_ignoring_HUP_and_INT"] += stubborn
                    stubborn = False
                    pdist["release_points"] += 1
                    pdist["release_points_after_raise"] += o["res"] != "ok"
                    pdist["closes_after_eof_was_read"] += bool(o["eof_before_close"])
                c = op.get("child")
                if c and c["kind"] == "exec_fail" and c["why"] in P.EXEC_FAILS:
                    pdist["exec_failures_after_fork"] += 1
            rep.case(("pty", json.dumps(sc, sort_keys=True)), nontrivial=any(o["res"] != "ok" for o in obs))
            for (i, klass, what) in P.pty_oracle(sc, obs):
                c = sc["ops"][i].get("child") or {}
                over, is_open = False, False
                for op in sc["ops"][:i + 1]:       # a session replaced by another open() before this release point?
                    over = over or (op["op"] in ("open", "with") and is_open)
                    is_open = op["op"] == "open" or (is_open and op["op"] == "operate")
                key = (klass, sc["ops"][i]["op"], c.get("kind"), over)
                if key in seen or len(seen) >= 6:
                    continue
                seen.add(key)
                rep.violation("real system (pty) transport, %s driver%s: %s" % (sc["kind"], " (a session was replaced by another open())" if over else "", what),
                              {"suite": "pty-child", "scenario": sc, "failing_op": i, "observed": obs,
                               "rerun": "./check C11 --replay <this file>"}, signature="c11-pty-%s" % klass)
    finally:
        gc.unfreeze()
    pdist["wall_s"] = round(time.time() - t0, 2)
    rep.coverage["pty_child"] = pdist


def _two_suite(rep, rng, thorough, tmpdir, corpus):
    """two connections: commandeer, nested with-blocks, NO_TERMINATE_ON_TIMEOUT (oracle-only, harness/c11_two.py)"""
    import time
    t0 = time.time()
    dist = {"histories": 0, "by_kind": {}, "stacks": {}, "ops": {}, "results": {}, "faults_fired": {}, "logs_A_B": {},
            "close_orders": {}, "release_points": 0, "release_points_after_raise": 0,
            "log_handles_seen": 0, "oracle_failures": 0}
    scs = [c["scenario"] for c in corpus if c.get("suite") == "two-conn"]
    scs += T.generate(rng, thorough)
    seen = set()
    for n, sc in enumerate(scs):
        sc = dict(sc, n=n)
        try:
            obs = T.TwoConn(sc, tmpdir).run()
        except L.Starved:
            rep.broken.append("two-conn harness: scenario starved")
            rep.notes.append("starved: %r" % (sc,))
            continue
        pub = {k: v for k, v in sc.items() if k != "n"}
        kind = T.classify(sc)
        dist["histories"] += 1
        dist["by_kind"][kind] = dist["by_kind"].get(kind, 0) + 1
        dist["stacks"][sc["stack"]] = dist["stacks"].get(sc["stack"], 0) + 1
        if kind == "commandeer":
            k = "%s/%s" % (sc["conns"]["A"].get("log"), sc["conns"]["B"].get("log"))
            dist["logs_A_B"][k] = dist["logs_A_B"].get(k, 0) + 1
            k = ">".join(op["c"] for op in sc["ops"] if op["op"] == "close")
            dist["close_orders"][k] = dist["close_orders"].get(k, 0) + 1
        for op, o in zip(sc["ops"], obs):
            dist["ops"][op["op"]] = dist["ops"].get(op["op"], 0) + 1
            k = "%s:%s" % (op["op"], o["res"])
            dist["results"][k] = dist["results"].get(k, 0) + 1
            if o["fired"]:
                k = "%s/%s" % tuple(o["fired"])
                dist["faults_fired"][k] = dist["faults_fired"].get(k, 0) + 1
            if op["op"] in ("close", "with", "nested"):
                dist["release_points"] += 1
                dist["release_points_after_raise"] += o["res"] != "ok"
        dist["log_handles_seen"] += obs[-1]["handles_seen"] if obs else 0
        if dist["histories"] in (1, 40):
            rep.sample({"two_conn_history": pub, "observed": [{"res": o["res"], "fired": o["fired"], "conn": o["conn"],
                                                               "handles_open": o["handles_open"], "log_fds": o["log_fds"]} for o in obs]})
        rep.case(("two", json.dumps(pub, sort_keys=True)), nontrivial=any(o["fired"] or o["res"] != "ok" for o in obs) or kind == "commandeer")
        for (i, klass, what) in T.oracle(sc, obs):
            dist["oracle_failures"] += 1
            key = (klass, sc["ops"][i]["op"], sc["stack"], kind)
            if key in seen or len(seen) >= 6:
                continue
            seen.add(key)
            rep.violation("two connections (%s), %s: %s" % (kind, sc["stack"], what),
                          {"suite": "two-conn", "scenario": pub, "failing_op": i, "observed": obs,
                           "rerun": "./check C11 --replay <this file>"}, signature=T.signature(sc, i, klass))
    # real sockets / a real pty child under two connections
    rdist = {"scenarios": 0, "results": {}}
    standin = STANDIN % {"verif": common.VERIF, "repo": common.REPO}
    for sc in T.real_scenarios(rng, thorough):
        obs = T.run_real(sc, tmpdir, standin)
        rdist["scenarios"] += 1
        k = "%s/%s:%s" % (sc["shape"], sc["transport"], obs["res"])
        rdist["results"][k] = rdist["results"].get(k, 0) + 1
        rep.case(("two-real", json.dumps(sc, sort_keys=True)), nontrivial=True)
        badr = T.real_oracle(sc, obs)
        if badr:
            rep.violation("two connections on real %s transport, %s: %s" % (sc["transport"], sc["shape"], "; ".join(badr)),
                          {"suite": "two-conn-real", "scenario": sc, "observed": obs, "rerun": "./check C11 --replay <this file>"},
                          signature="c11-two-real-%s" % sc["shape"])
    dist["real"] = rdist
    dist["wall_s"] = round(time.time() - t0, 2)
    rep.coverage["two_connections"] = dist


def _ssh_suite(rep, thorough, tmpdir, corpus):
    """failure points of the library transports' open() (oracle-only, harness/c11_ssh.py); own generator stream"""
    import logging
    import random
    import time
    t0 = time.time()
    rng = random.Random("c11-ssh-open-%s" % rep.seed)
    dist = {"histories": 0, "by_world": {}, "by_failure_point": {}, "shapes": {}, "results": {}, "strict": 0,
            "release_points": 0, "release_points_after_failed_open": 0, "library_objects_acquired": 0,
            "acquired_before_the_failing_step": 0, "oracle_failures": 0}
    scs = [c["scenario"] for c in corpus if c.get("suite") == "ssh-open"]
    scs += S.stub_scenarios(rng, thorough)
    loop_scs = S.loopback_scenarios(rng, thorough)
    seen = set()
    lb = None
    plog = logging.getLogger("paramiko")
    plevel = plog.level
    plog.setLevel(logging.CRITICAL + 1)      # paramiko logs the failures we script to stderr (no handler configured)
    try:
        for sc in scs + loop_scs:
            if sc["world"] == "loopback":
                if len([k for k in seen if k[0] == "loopback"]) >= 3:
                    continue                  # every leak costs a bounded wait: enough failing inputs
                if lb is None:
                    lb = S._mk_loopback()
                obs = S.run_loopback(sc, tmpdir, lb)
            else:
                obs = S.run_stub(sc, tmpdir)
            dist["histories"] += 1
            dist["by_world"][sc["world"]] = dist["by_world"].get(sc["world"], 0) + 1
            k = S.classify(sc)
            dist["by_failure_point"][k] = dist["by_failure_point"].get(k, 0) + 1
            dist["shapes"][sc["shape"]] = dist["shapes"].get(sc["shape"], 0) + 1
            dist["strict"] += bool(sc.get("strict"))
            failed = False
            for op, o in zip(sc["ops"], obs):
                k = "%s:%s" % (op["op"], o["res"])
                dist["results"][k] = dist["results"].get(k, 0) + 1
                if op["op"] in ("open", "with") and (op.get("fail") or op.get("server", "ok") != "ok"):
                    failed = True
                    dist["acquired_before_the_failing_step"] += len(o.get("acquired", []))
                if op["op"] in ("close", "with"):
                    dist["release_points"] += 1
                    dist["release_points_after_failed_open"] += failed
            if obs and "acquired" in obs[-1]:
                dist["library_objects_acquired"] += len(obs[-1]["acquired"])
            if dist["histories"] in (2, 30):
                rep.sample({"ssh_open_history": sc, "observed": [{k: o.get(k) for k in ("res", "acquired", "unreleased", "calls",
                                                                                         "server_still_holds", "client_sockets", "handles")} for o in obs]})
            rep.case(("ssh-open", json.dumps(sc, sort_keys=True)), nontrivial=True)
            for (i, klass, what) in S.oracle(sc, obs):
                dist["oracle_failures"] += 1
                if klass == "harness":
                    rep.broken.append("ssh-open harness: %s (%s)" % (what, S.classify(sc)))
                    continue
                sig = S.signature(sc, i, klass)
                key = (sc["world"], klass, sc["lib"], sc["ops"][i]["op"], sig)
                if key in seen or len([k for k in seen if k[4] != S.SIG_PARAMIKO]) >= 6:
                    continue
                seen.add(key)
                rep.violation("%s transport (%s), %s: %s" % (sc["lib"], sc["world"], S.classify(sc), what),
                              {"suite": "ssh-open", "scenario": sc, "failing_op": i, "observed": obs,
                               "rerun": "./check C11 --replay <this file>"}, signature=sig)
    finally:
        plog.setLevel(plevel)
        if lb is not None:
            lb.close()
    dist["wall_s"] = round(time.time() - t0, 2)
    rep.coverage["ssh_open"] = dist


# ------------------------------------------------------------------------------------------------
def run(rep):
    from gen import gen_lifecycle, gen_telnet

    import faulthandler
    rng = rep.rng
    thorough = rep.tier == "thorough"
    # watchdog: a hang of the implementation (or of the harness) must not hang the check — fail closed
    faulthandler.dump_traceback_later(2400 if thorough else 600, exit=True)
    tmpdir = tempfile.mkdtemp(prefix="c11_", dir=rep.workdir)
    info = {}
    try:
        _, info = gen_lifecycle.generate(rep.workdir)
        gen_telnet.generate(rep.workdir)
        for g in ("Gen_Telnet.v", "Gen_Lifecycle.v"):
            rc, out, _ = common.coqc(os.path.join(rep.workdir, g), rep.workdir)
            if rc:
                rep.broken.append(g)
                rep.notes.append(out[-2000:])
    except Exception as e:  # translator aborted: broken tie
        rep.broken.append("gen_lifecycle:%s" % e)
    ok, _ = rep.build_static()
    rep.add_static_obligations("props/C11.v", ok)
    if not ok:
        rep.broken.append("static-build")
    gen_ok = not [b for b in rep.broken if b.startswith("Gen_") or b.startswith("gen_") or b == "static-build"]
    if gen_ok:
        rep.compile_props("props/C11.v")

    try:
        _explore(rep, rng, thorough, tmpdir, info, gen_ok)
    finally:
        faulthandler.cancel_dump_traceback_later()
        shutil.rmtree(tmpdir, ignore_errors=True)


def _explore(rep, rng, thorough, tmpdir, info, gen_ok):
    measure_counts(tmpdir)
    # ---- corpus: replays of the listed findings first ----
    corpus = []
    fdir = os.path.join(common.VERIF, "findings")
    for f in sorted(os.listdir(fdir)) if os.path.isdir(fdir) else []:
        if f.startswith("C11-"):
            corpus.append(json.load(open(os.path.join(fdir, f))))
    scenarios = [c["scenario"] for c in corpus if c.get("suite") == "lifecycle"]
    scenarios += enumerated(rng, thorough)
    n_rand = 1500 if thorough else 220
    scenarios += [gen_history(rng) for _ in range(n_rand)]
    scenarios += [gen_history(rng, malformed=True) for _ in range(n_rand // 4)]
    scenarios += gen_no_terminate(rep.seed, thorough)
    scenarios += gen_cancel(rep.seed, thorough)          # ORACLE-ONLY (the model has no cancellation): not in `terms`
    cdist = {"histories": 0, "ops_ended_by": {}, "hangs_ended_by_task_cancel": 0, "hangs_ended_by_wait_for_timeout": 0,
             "cancelled_in_phase": {}, "release_points_after_cancellation": 0, "ops_cancelled_twice": 0, "kinds": {}}
    dist = {"scenarios": 0, "ops": {}, "kinds": {}, "stacks": {}, "results": {}, "faults_fired": {}, "log": {},
            "history_len": {}, "release_points": 0, "release_points_after_raise": 0, "no_terminate": 0,
            "no_terminate_timeouts_left_transport_open": 0}
    terms, cases, viol, oviol = [], [], [], []
    for n, sc in enumerate(scenarios):
        sc = dict(sc)
        sc["n"] = n
        try:
            obs, ops_terms = run_lifecycle_scenario(sc, tmpdir)
        except L.Starved:
            rep.broken.append("lifecycle harness: scenario starved")
            rep.notes.append("starved: %r" % (sc,))
            continue
        dist["scenarios"] += 1
        dist["no_terminate"] += bool(sc.get("no_terminate"))
        dist["no_terminate_timeouts_left_transport_open"] += sum(
            1 for o in obs if sc.get("no_terminate") and o["res"] == "ScrapliTimeout" and o["t_open"])
        dist["kinds"][sc["kind"]] = dist["kinds"].get(sc["kind"], 0) + 1
        dist["stacks"][sc["stack"]] = dist["stacks"].get(sc["stack"], 0) + 1
        dist["log"][str(sc.get("log"))] = dist["log"].get(str(sc.get("log")), 0) + 1
        dist["history_len"][len(sc["ops"])] = dist["history_len"].get(len(sc["ops"]), 0) + 1
        for op, o in zip(sc["ops"], obs):
            dist["ops"][op["op"]] = dist["ops"].get(op["op"], 0) + 1
            dist["results"][o["res"]] = dist["results"].get(o["res"], 0) + 1
            if o["fired"]:
                k = "%s/%s" % tuple(o["fired"])
                dist["faults_fired"][k] = dist["faults_fired"].get(k, 0) + 1
            if op["op"] in ("close", "with"):
                dist["release_points"] += 1
                dist["release_points_after_raise"] += o["res"] != "ok"
        nontriv = any(o["fired"] or o["res"] != "ok" for o in obs)
        rep.case(json.dumps({k: v for k, v in sc.items() if k != "n"}, sort_keys=True), nontrivial=nontriv)
        if sc.get("cancellable"):
            cdist["histories"] += 1
            cdist["kinds"][sc["kind"]] = cdist["kinds"].get(sc["kind"], 0) + 1
            for op, o in zip(sc["ops"], obs):
                h = o.get("hangs_ended") or {}
                if o["res"] in CANCEL_RES and (h.get("cancels") or h.get("timeouts")):
                    k = "%s:%s" % (op["op"], o["res"])
                    cdist["ops_ended_by"][k] = cdist["ops_ended_by"].get(k, 0) + 1
                    k = "%s/%s" % (op["op"], o["fired"][0] if o["fired"] else "?")
                    cdist["cancelled_in_phase"][k] = cdist["cancelled_in_phase"].get(k, 0) + 1
                    cdist["release_points_after_cancellation"] += op["op"] in ("close", "with")
                    cdist["ops_cancelled_twice"] += (h.get("cancels", 0) + h.get("timeouts", 0)) >= 2
                cdist["hangs_ended_by_task_cancel"] += h.get("cancels", 0)
                cdist["hangs_ended_by_wait_for_timeout"] += h.get("timeouts", 0)
            for (i, klass, what) in oracle(sc, obs):
                oviol.append((sc, obs, i, klass, what))
            continue
        terms.append(lc_case_term(sc, obs, ops_terms))
        cases.append((sc, obs))
        for (i, klass, what) in oracle(sc, obs):
            viol.append((len(cases) - 1, i, klass, what))
        if n in (0, len(scenarios) // 2):
            rep.sample({"scenario": {k: v for k, v in sc.items() if k != "n"},
                        "observed": [{k: o[k] for k in ("res", "t_open", "log_open", "fired")} for o in obs]})
    bad, log = (None, "generated model not available") if not gen_ok else common.eval_cases(rep.workdir, "cases_c11_lc", HEADER_LC, terms, "chk")
    rep.coverage["correspondence_lifecycle"] = {"suite": "lifecycle", "cases": len(terms), "distribution": dist,
                                                "phase_io_counts": {"%s/%s" % k: list(v) for k, v in sorted(PHASE_COUNTS.items())},
                                                "model_disagreements": None if bad is None else len(bad),
                                                "oracle_failures": len(viol)}
    rep.coverage["cancellation_histories"] = dict(cdist, suite="lifecycle (oracle-only)", oracle_failures=len(oviol))
    seen = set()
    for (sc, obs, i, klass, what) in [cases[ci] + (i, klass, what) for (ci, i, klass, what) in viol] + oviol:
        key = (klass, sc["ops"][i]["op"], sc["stack"], bool(sc.get("cancellable")), oracle_signature(sc, obs, i, klass))
        if key in seen or len(seen) >= 8:
            continue
        seen.add(key)
        rep.violation("%s %s driver: %s" % (sc["kind"], sc["stack"], what),
                      {"suite": "lifecycle", "scenario": {k: v for k, v in sc.items() if k != "n"}, "failing_op": i,
                       "observed": obs, "rerun": "./check C11 --replay <this file>"},
                      signature=oracle_signature(sc, obs, i, klass))
    if bad is None:
        if gen_ok:
            rep.broken.append("correspondence lifecycle (model evaluation failed)")
            rep.notes.append(log)
    elif bad:
        vi = {v[0] for v in viol}
        for ix in bad[:4]:
            sc, obs = cases[ix]
            if ix in vi:
                continue
            rep.broken.append("correspondence lifecycle: model trace differs from the implementation")
            rep.notes.append("disagreement: %s" % json.dumps({"scenario": sc, "observed": [
                {k: o[k] for k in ("res", "t_open", "log_open", "fired", "dead_before")} for o in obs]}, default=repr)[:3000])

    # ---- telnet across close()/open() ----
    tn_terms, tn_cases, tn_viol = [], [], []
    tdist = {"sequences": 0, "session_kinds": {}, "sessions": 0}
    tn_corpus = [tn_from_json(c["sessions"]) for c in corpus if c.get("suite") == "telnet-reopen"]
    seqs = tn_corpus + [gen_tn_sessions(rng) for _ in range(600 if thorough else 120)]
    for sessions in seqs:
        tdist["sequences"] += 1
        for s in sessions:
            tdist["sessions"] += 1
            tdist["session_kinds"][s["kind"]] = tdist["session_kinds"].get(s["kind"], 0) + 1
        for is_async, fn in ((False, telnet_sessions_sync), (True, telnet_sessions_async)):
            res = fn([s["chunks"] for s in sessions])
            rep.case(("tn", is_async, json.dumps(tn_jsonable(sessions))), nontrivial=sessions[0]["kind"] != "plain")
            tn_terms.append(tn_case_term(is_async, sessions, res))
            tn_cases.append((is_async, sessions, res))
            for (i, what) in tn_oracle(sessions, res):
                tn_viol.append((len(tn_cases) - 1, i, what))
    if tn_cases:
        a, ss, res = tn_cases[min(3, len(tn_cases) - 1)]
        rep.sample({"telnet_sessions": tn_jsonable(ss), "async": a,
                    "observed": [{"data": r["data"].hex(), "replies": r["replies"].hex(), "counter": r["counter"], "eof": r["eof"]} for r in res]})
    tbad, tlog = (None, "generated model not available") if not gen_ok else common.eval_cases(rep.workdir, "cases_c11_tn", HEADER_TN, tn_terms, "chk")
    rep.coverage["correspondence_telnet_reopen"] = {"suite": "telnet-reopen", "cases": len(tn_terms), "distribution": tdist,
                                                    "model_disagreements": None if tbad is None else len(tbad),
                                                    "oracle_failures": len(tn_viol)}
    seen = set()
    for (ci, i, what) in tn_viol:
        is_async, sessions, res = tn_cases[ci]
        key = (is_async, sessions[i - 1]["kind"] if i else "first")
        if key in seen or len(seen) >= 4:
            continue
        seen.add(key)
        rep.violation("%s transport, %s" % ("asynctelnet" if is_async else "telnet", what),
                      {"suite": "telnet-reopen", "async": is_async, "sessions": tn_jsonable(sessions), "failing_session": i,
                       "observed": [{"data": r["data"].hex(), "replies": r["replies"].hex(), "counter": r["counter"], "eof": r["eof"], "exc": r["exc"]} for r in res],
                       "rerun": "./check C11 --replay <this file>"}, signature="c11-telnet-reopen")
    if tbad is None:
        if gen_ok:
            rep.broken.append("correspondence telnet-reopen (model evaluation failed)")
            rep.notes.append(tlog)
    elif tbad:
        vi = {v[0] for v in tn_viol}
        for ix in tbad[:3]:
            if ix in vi:
                continue
            is_async, sessions, res = tn_cases[ix]
            rep.broken.append("correspondence telnet-reopen: model differs from the implementation")
            rep.notes.append("disagreement: async=%s %s -> %r" % (is_async, json.dumps(tn_jsonable(sessions)), res))

    # ---- real sockets / pty child ----
    rdist = {"scenarios": 0, "results": {}}
    rsc = real_scenarios(thorough)
    if not thorough:
        rsc = [s for s in rsc if s["mode"] != "silent"]
        rsc = rng.sample(rsc, 6)
    for sc in rsc:
        obs = run_real(sc, tmpdir)
        rdist["scenarios"] += 1
        k = "%s/%s/%s:%s,%s" % (sc["transport"], sc["mode"], sc["shape"], obs["res"], obs["res2"])
        rdist["results"][k] = rdist["results"].get(k, 0) + 1
        rep.case(("real", json.dumps(sc, sort_keys=True)), nontrivial=sc["mode"] != "ok")
        badr = real_oracle(sc, obs)
        if badr:
            rep.violation("real %s transport, device %s, exit through %s: %s" % (sc["transport"], sc["mode"], sc["shape"], "; ".join(badr)),
                          {"suite": "real-resources", "scenario": sc, "observed": obs, "rerun": "./check C11 --replay <this file>"},
                          signature="c11-real-%s" % sc["transport"])
    rep.coverage["real_resources"] = rdist

    # ---- real pty children that go away by themselves / an ssh that cannot be exec'd ----
    _pty_suite(rep, rng, thorough, tmpdir, corpus)

    # ---- two connections: commandeer / nested with-blocks / NO_TERMINATE_ON_TIMEOUT ----
    _two_suite(rep, rng, thorough, tmpdir, corpus)

    # ---- every failure point of the asyncssh / paramiko transports' open() ----
    _ssh_suite(rep, thorough, tmpdir, corpus)

    # ---- a broken obligation / correspondence without a failing input so far: search harder ----
    if rep.broken and not rep.violations:
        found = 0
        for sc in gen_cancel(rep.seed, True) + enumerated(rng, True):
            try:
                obs, _ = run_lifecycle_scenario(dict(sc, n=0), tmpdir)
            except L.Starved:
                continue
            for (i, klass, what) in oracle(sc, obs):
                if not rep.violation("%s %s driver: %s" % (sc["kind"], sc["stack"], what),
                                     {"suite": "lifecycle", "scenario": sc, "failing_op": i, "observed": obs,
                                      "rerun": "./check C11 --replay <this file>"}, signature=oracle_signature(sc, obs, i, klass)):
                    continue
                found += 1
                break
            if found >= 3:
                break
        rep.notes.append("search after broken obligation: %d failing inputs found" % found)

    rep.coverage["generated_from"] = common.source_hashes(SOURCES)
    rep.coverage["generated"] = info
    rep.rule = ("lifecycle: histories of open / operate / close / with over real drivers (5 platforms + generic + network, sync and asyncio) "
                "and SimDevice; enumerated = the device dropping, stalling or failing a write at every read/write of every phase "
                "(on_open, operate, with-body, on_close); random = mostly-valid histories (len 2-7, hooks default/user/failing, log file/none/unopenable, "
                "open failures) + a malformed stream (close before open, operate on closed, open on open) + NO_TERMINATE_ON_TIMEOUT histories (a stall raises and leaves the "
                "transport open, model step SStallOpen: per kind x stack a with-block stalling in the body and open/operate-stall/close/close/open/close, + 40 (300) random) "
                "+ CANCELLATION histories (asyncio, oracle-only, own stream; fault kind hang = the device is connected and silent from a drawn read of the phase on, no scrapli timeout "
                "running, the read really waits; the waiting call is ended from outside by asyncio.wait_for(call, t) expiring or by task.cancel(), every further wait of the same call by "
                "task.cancel()): per driver kind close() cancelled inside on_close (wait_for | task) then close / re-open / close; with-block whose on_close waits (cancelled once) and whose "
                "body waits (cancelled twice: in the body and again in __aexit__ -> close() -> on_close); open() cancelled inside on_open then close() (cancelled again) / re-open / operate / close; "
                "operation cancelled then close() cancelled: quick = 5 of these 10 per kind (always both ways of cancelling close()) + 24 random histories in which any op may meet the quiet device, "
                "thorough = all 10 x 7 kinds at drawn reads + 200 random; distinct = scenario JSON; "
                "non-trivial = some fault fired or some op raised.  telnet-reopen: 2-3 sessions on one transport object, early sessions leave it "
                "dirty (10 commands, EOF, command cut short); real-resources: loopback TCP device / pty child, device ok / silent / dying; "
                "pty-child: histories of with / open / operate / close / close / re-open over the real system transport, the /bin/sh stand-in exiting "
                "at a drawn point (start, on_open line 1-3, on the body command, 1-2 lines into on_close; exit 0 / 255 / SIGKILL) or the ssh exec failing "
                "(ENOEXEC, missing interpreter, E2BIG, not executable; open_cmd / PATH): quick = one platform per kind + 2 random histories, thorough = "
                "all platforms x phases x shapes + 40 random; distinct = history JSON; non-trivial = some op raised.  "
                "pty-child, wedged stand-ins (own stream): the /bin/sh device answers normally, ignores a set of signals (nothing | HUP | INT | HUP+INT | HUP+INT+TERM; trap '' "
                "before the first prompt) and does not exit on 'exit' / end of input (exec sleep: same pid, no grandchild), so it is running when close() is called: quick = one with-block "
                "(0-1 body commands, normal exit / ValueError; then close()) over a child ignoring HUP+INT+TERM on a drawn platform + one open/operate/close/close/re-open over a drawn smaller set; "
                "thorough = 6 platforms x 5 sets x (with-block | plain) with re-open + 8 histories where the wedged session is replaced by another open() / with-block + 12 random histories "
                "(70 % wedged children).  "
                "two-conn: histories over two driver objects A, B — commandeer (open A with/without channel_log file, B constructed with/without its own, "
                "B.commandeer(A) with/without on_open and with the device dropping/stalling inside it, operate through B and/or A, close B | A | B,A | A,B, repeated closes, "
                "re-open) every (stack x logs x order) combination on every run + random; nested with-blocks (outer A, inner B: inner stall / drop / body raising "
                "ScrapliTimeout or another class / fault in the outer body after the inner block); NO_TERMINATE_ON_TIMEOUT (with-block stalling in body / on_open, "
                "open-operate-close stalling in operate / on_close, nested): quick = 44 fixed + 120 random, thorough = 44 + 600; real = telnet / asynctelnet loopback "
                "and a pty child (commandeer: 3 of 36 quick, all thorough; nested / no_terminate with a 0.4 s operation timeout: 1 of 4 quick, all thorough); "
                "distinct = history JSON; non-trivial = commandeer history, or some fault fired / some op raised.  "
                "pty-child also opens OVER an existing session (own stream): open-operate-open-operate-close-close | open, with-block, close, with-block | "
                "open(device goes away in the operation)-operate-open-operate-close | same carrying on with a with-block | stand-in exits before the prompt, open again | "
                "open(device goes away)-operate-open-operate-open-operate-close | same ending in a with-block: "
                "quick = one of the last two (a re-open after a drop AND an open over the live session in one history), thorough = all 7 x 6 platforms; random histories open / with over an open session too.  "
                "ssh-open (own stream): per library (asyncssh, paramiko) every failure point of open() x exception class (asyncssh: connect refused / lost / timed out / "
                "kex / host key, PermissionDenied, host key value mismatch / none (strict), open_session ChannelOpenError / ConnectionLost / BrokenPipeError / RuntimeError, "
                "pty and shell request refused; paramiko: socket, start_client SSHException / EOFError / timeout, auth EOFError, open_session EOFError, get_pty / invoke_shell "
                "SSHException / EOFError) x shape (with-block then healthy with-block | "
                "open-close-close-open-operate-close | healthy open-operate-close, failing with-block, close, healthy with-block) on recording stubs: quick = first + one drawn class "
                "per point x 2 shapes x one drawn driver (IOS-XE default hooks / generic), thorough = all x 3 shapes x both drivers; loopback ssh servers (password rejected, "
                "session / pty / shell refused, disconnect at the session request, hang-up before the banner, nobody listening): quick = asyncssh session-refused (both shapes) + 2 drawn "
                "+ 1 paramiko, thorough = all modes x 3 shapes; distinct = history JSON; every history has a failing open (non-trivial)")


# ------------------------------------------------------------------------------------------------
def replay(path):
    r = json.load(open(path))
    tmpdir = tempfile.mkdtemp(prefix="c11_replay_")
    try:
        if r.get("suite") == "lifecycle":
            measure_counts(tmpdir)
            sc = r["scenario"]
            obs, _ = run_lifecycle_scenario(dict(sc, n=0), tmpdir)
            for op, o in zip(sc["ops"], obs):
                print("%-8s -> %-28s transport_open=%s log_open=%s fired=%s%s" % (
                    op["op"], o["res"], o["t_open"], o["log_open"], o["fired"],
                    " waits ended by %s" % o["hangs_ended"] if o.get("hangs_ended") else ""))
            bad = oracle(sc, obs)
            for (i, klass, what) in bad:
                print("op %d: %s%s" % (i, what, "   [listed known finding %s]" % SIG_AENTER
                                       if oracle_signature(sc, obs, i, klass) == SIG_AENTER else ""))
            print("property FAILS on this input" if bad else "property holds on this input")
            return 1 if bad else 0
        if r.get("suite") == "telnet-reopen":
            sessions = tn_from_json(r["sessions"])
            rc = 0
            for is_async, fn in ((False, telnet_sessions_sync), (True, telnet_sessions_async)):
                if "async" in r and r["async"] != is_async:
                    continue
                res = fn([s["chunks"] for s in sessions])
                for s, o in zip(sessions, res):
                    print("async=%s %-9s chunks=%r -> data=%r replies=%r counter=%d eof=%s" % (
                        is_async, s["kind"], s["chunks"], o["data"], o["replies"], o["counter"], o["eof"]))
                bad = tn_oracle(sessions, res)
                for (i, what) in bad:
                    print("  " + what)
                rc |= bool(bad)
            print("property FAILS on this input" if rc else "property holds on this input")
            return rc
        if r.get("suite") == "real-resources":
            obs = run_real(r["scenario"], tmpdir)
            print(obs)
            bad = real_oracle(r["scenario"], obs)
            print("property FAILS on this input: %s" % bad if bad else "property holds on this input")
            return 1 if bad else 0
        if r.get("suite") == "pty-child":
            sc = r["scenario"]
            obs = P.run_pty(sc, tmpdir)
            for op, o in zip(sc["ops"], obs):
                print("%-8s %-60s -> %-28s children=%s fds=%s session_held=%s eof_read_before=%s" % (
                    op["op"], json.dumps(op.get("child")) if op.get("child") else "", o["res"], o["children"],
                    sorted(o["fds"].values()), o["session_held"], o["eof_before_close"]))
            bad = P.pty_oracle(sc, obs)
            for (i, klass, what) in bad:
                print("op %d: %s" % (i, what))
            print("property FAILS on this input" if bad else "property holds on this input")
            return 1 if bad else 0
        if r.get("suite") == "two-conn":
            sc = r["scenario"]
            obs = T.TwoConn(dict(sc, n=0), tmpdir).run()
            for op, o in zip(sc["ops"], obs):
                print("%-66s -> %-26s fired=%s shared_transport=%s" % (json.dumps(op)[:66], o["res"], o["fired"], o["shared"]))
                print("      %s  log file objects open=%d/%d log fds=%s new fds=%s" % (
                    "  ".join("%s: transport_open=%s alive=%s log_open=%s" % (n, c["t_open"], c["isalive"], c["log_open"])
                              for n, c in sorted(o["conn"].items())), o["handles_open"], o["handles_seen"], o["log_fds"], o["new_fds"]))
            bad = T.oracle(sc, obs)
            for (i, klass, what) in bad:
                print("op %d: %s" % (i, what))
            print("property FAILS on this input" if bad else "property holds on this input")
            return 1 if bad else 0
        if r.get("suite") == "two-conn-real":
            obs = T.run_real(r["scenario"], tmpdir, STANDIN % {"verif": common.VERIF, "repo": common.REPO})
            print(obs)
            bad = T.real_oracle(r["scenario"], obs)
            print("property FAILS on this input: %s" % bad if bad else "property holds on this input")
            return 1 if bad else 0
        if r.get("suite") == "ssh-open":
            sc = r["scenario"]
            if sc["world"] == "loopback":
                lb = S._mk_loopback()
                try:
                    obs = S.run_loopback(sc, tmpdir, lb)
                finally:
                    lb.close()
            else:
                obs = S.run_stub(sc, tmpdir)
            for op, o in zip(sc["ops"], obs):
                print("%-70s -> %-28s" % (json.dumps(op)[:70], o["res"]))
                print("      " + "  ".join("%s=%s" % (k, o[k]) for k in ("acquired", "unreleased", "calls", "server_still_holds",
                                                                         "client_sockets", "handles", "isalive", "threads") if k in o))
            bad = [b for b in S.oracle(sc, obs)]
            for (i, klass, what) in bad:
                print("op %d: %s" % (i, what))
            print("property FAILS on this input" if bad else "property holds on this input")
            return 1 if bad else 0
        print("nothing to replay (no concrete input): %s" % r.get("what"))
        return 1
    finally:
        shutil.rmtree(tmpdir, ignore_errors=True)


MANIFEST = {
    "text": "Coq theorems (props/C11.v), for the programs that gen/gen_lifecycle.py translates from the CURRENT Driver/AsyncDriver source "
            "(open, close, __enter__/__aenter__, __exit__/__aexit__) and for EVERY history of open / operate / close / re-open / with-blocks, "
            "every on_open/on_close hook (absent, succeeding, raising any exception at any point, the default platform hooks) and every device "
            "outcome of every interaction (answers, drops -> ScrapliConnectionError, stalls -> timeout closes the transport and raises ScrapliTimeout, or with "
            "NO_TERMINATE_ON_TIMEOUT raises and leaves the transport open): "
            "after close() returns OR raises and after every with-block exit (failed open, failed on_open, body exception, failed on_close) the "
            "transport handle and the channel-log handle are released (close_releases, with_releases, history_releases); a further close() changes "
            "nothing and with a device-talking hook raises ScrapliConnectionNotOpened, otherwise returns (close_idempotent); open() after close() "
            "succeeds when the device answers and starts the Telnet transport from its initial protocol state, so C15's negotiation theorem applies "
            "to every re-opened session (reopen_ok, reopen_negotiation_invisible).  The pinned commit's close() without try/finally and Telnet open() "
            "without reset are refuted by vm_compute witnesses.  System (pty) transport: PtyProcess.close() as translated from the CURRENT ptyprocess.py "
            "waits for the ssh child and closes the pty master from EVERY state of an un-closed object — EOF already read or not, child running / defunct — "
            "raises only if the child survives SIGKILL, does nothing on a closed object (C11_pty_close_reaps, C11_pty_close_idempotent; decided over all 24 "
            "states x 8 environments: hang-up ends the child or not x SIGHUP/SIGCONT/SIGINT end it or not x SIGKILL ends it or not; the force argument close() passes to terminate() "
            "is translated, a close() that does not escalate to SIGKILL fails the obligation: pty_close_no_force_rejected); the parent part of PtyProcess.spawn() wraps pid/fd in a PtyProcess before any statement that can raise, so a failed "
            "exec of the ssh binary leaves them owned and close() releases them (C11_pty_open_failure_released).  The full statement for the pty child is "
            "refuted (C11_pty_close_full_refuted: EOF read while the child still runs and ignores SIGHUP -> blocking waitpid).  Release of OS resources (fds, pty child, "
            "sockets, threads) is otherwise OBSERVED, not proved: partial.  Two connections (commandeer: B takes over A's transport and A's log handle; nested with-blocks; "
            "Settings.NO_TERMINATE_ON_TIMEOUT across them) are NOT in the theorems: decided by an oracle on the real code only (suite two-conn).  "
            "The library transports (asyncssh, paramiko) are NOT in the theorems either — the model's transport.open() is one step that acquires all or nothing: "
            "that open() failing at ANY of its internal steps leaves nothing behind once the with-block is left / close() returned is decided by an oracle on the real "
            "code (suite ssh-open).  A pty session REPLACED by another open() on the same object is outside the theorems (handle replacement) and decided by the "
            "pty-child oracle on every child the connection ever started.  CANCELLATION (asyncio.CancelledError is a BaseException, outside the model's exceptions) is NOT in the "
            "theorems: that close() / a with-block exit release the connection when the call is cancelled while on_close (or the body, or open()) waits for a device that went quiet "
            "(asyncio.wait_for(conn.close(), t) expiring, task.cancel() once and twice) is decided by the oracle on the real asyncio drivers (cancellation histories of suite lifecycle).",
    "note": "Proved of the model: ordering logic of the four driver methods (statement language: sequence / try-finally / try-except, Python "
            "semantics), decided for the generated programs by a verified abstract interpreter (lifecycle_ok, soundness proved). Section-free, axiom-free. "
            "Model assumptions (each confronted by the correspondence runs, not proved): transport.close()/channel.close() do not raise and release "
            "every handle the object owns; a hook/step never opens a transport; a read/write on a closed transport raises ScrapliConnectionNotOpened; "
            "a timeout either closes the transport and raises ScrapliTimeout (step SStall, the default) or, with Settings.NO_TERMINATE_ON_TIMEOUT, raises and leaves it open "
            "(step SStallOpen; both are device outcomes the theorems quantify over, both exercised by the lifecycle correspondence: gen_no_terminate); only Exception subclasses "
            "(no KeyboardInterrupt/BaseException: the model's try/except catches every modelled exception, so asyncio.CancelledError — which `except Exception` does not catch and `finally` does see — "
            "is not a model outcome; the gen translator still refuses any close()/__aexit__ shape other than sequence / try-finally / try-except Exception). "
            "Cancellation histories are ORACLE-ONLY (no model trace is compared; same oracle, same observers as the rest of suite lifecycle: transport flag, isalive(), channel-log handle, "
            "/proc/self/fd, threads after every op, release judged after every close() and with-block whatever their result — returned, raised, CancelledError, TimeoutError of the outer wait_for): "
            "real asyncio drivers (5 platforms' default hooks, network, generic with user hooks that read the prompt) over AsyncFaultTransport whose read, from the drawn point on, awaits a future "
            "nobody completes (the device stays quiet for the rest of the session; timeout_ops = 0 so no scrapli timeout ends the wait); a supervising coroutine is woken by the transport when a read "
            "starts to wait (asyncio.Event, no sleeping) and cancels the task, or lets the 0.02 s asyncio.wait_for around the call expire (nothing else in a scripted run yields to the loop, so the "
            "timer can only fire at that wait: deterministic); 60 histories quick (+~0.5 s), ~270 thorough; when the translator refuses the source the failing-input search runs the thorough set first. "
            "Fixed finding c11-with-cancelled-in-aenter (4343e8e; replayed every run from findings/, and generated again: with-blocks whose on_open waits): an `async with` cancelled while __aenter__ was "
            "still inside open() left transport and log open (__aenter__ released only under `except Exception`, __aexit__ is not called). "
            "Not generated: cancellation of the sync drivers (KeyboardInterrupt), cancellation landing inside transport.open() of a real transport. "
            "open() on an already open connection (handle replacement) is outside the property's quantifier and not tracked. "
            "Pty child model: only PtyProcess.close() and the parent part of spawn() are translated (ast, fail-closed; gen also requires __del__ -> self.close() "
            "and SystemTransport.close -> session.close(), and that terminate(force=False) sends SIGHUP, SIGCONT, SIGINT and, exactly under `if force`, SIGKILL, "
            "returning True only after `not self.isalive()`); isalive()/terminate()/waitpid (signals take effect at once: the 0.1 s waits of the code are not modelled), 'closing the master sends SIGHUP' and 'os.close/os.read on the "
            "exec-error pipe do not raise' are hand-written model assumptions; the premise of C11_pty_close_reaps (if an EOF was read while the child still runs, the SIGHUP of "
            "the closed master makes it exit: true of ssh) is the region of the partial theorem — outside it close() waits for the child (blocking waitpid once "
            "flag_eof is set): PBlocks in the model, confirmed by hand on the real code (a child that closed its tty, ignores SIGHUP and sleeps 2 s: close() took "
            "2.0 s), not generated by the check (a liveness matter, it would stall the run) and not a release failure; "
            "'owned by a PtyProcess object' becomes 'released' through transport.close() or, after a failed spawn, through __del__ when the exception is "
            "collected (reference cycle exception -> traceback -> frame: needs gc.collect(); the observers call it) — that step is observed, not proved. "
            "Suite pty-child is ORACLE-ONLY (no model trace is compared): real SystemTransport/PtyProcess under the real sync drivers (5 platforms' default "
            "hooks + generic), /bin/sh stand-ins exiting before the first prompt / inside on_open / inside the body or an operation / inside on_close by "
            "exit 0, exit 255 or SIGKILL, an ssh whose exec fails after the fork (ENOEXEC, missing interpreter, E2BIG; via open_cmd or first on PATH) or that is "
            "refused before it; with-blocks and open/operate/close/close/re-open; observers: children of this process in ANY state (zombies included), "
            "/proc/self/fd, threads, after gc.collect() (9 histories quick, ~100 thorough). "
            "Wedged stand-ins (ORACLE-ONLY as the rest of the suite; the model's counterpart is the environment polite_works = false, kill_works = true of C11_pty_close_reaps): children that "
            "ignore nothing / HUP / INT / HUP+INT / HUP+INT+TERM and linger after 'exit' and after the hang-up, so close() finds them running and without an EOF read; same oracle, "
            "same observers: after close() / the with-block no child of the connection is alive or a zombie (2 histories quick = +~1 s: each SIGKILL escalation costs the code's own 5 x 0.1 s; "
            "~80 thorough).  NOT generated: a child that ignores the signals AND closed its tty (EOF read) — the known blocking-waitpid region above; a child that survives SIGKILL. "
            "Observed only (partial): /proc/self/fd, child pids, threading.enumerate, handle attributes for SimDevice runs (every run) and for real "
            "sockets / a real pty child (6 scenarios quick, 24 thorough); in-channel authentication outcomes are modelled but not exercised (auth_bypass); "
            "ssh2 transport is not exercised (library not installed). "
            "Suite ssh-open is ORACLE-ONLY (AsyncsshTransport.open()/close() and ParamikoTransport.open()/close() are not translated; the model assumption 'transport.close() "
            "releases every handle the object owns' is what it confronts for these two plugins): real drivers (IOS-XE default hooks, generic) over (a) stub library objects patched "
            "into the plugin modules (asyncssh plugin's `connect`; paramiko plugin's `Socket` and `_ParamikoTransport`) that record close()/abort() and fail at a chosen step with a chosen "
            "exception class, a SimDevice behind healthy sessions — stub behaviour that is an assumption about the libraries: asyncssh.connect() hands nothing out when it raises; asyncssh "
            "closes a channel whose pty / shell request was refused; a paramiko Transport whose handshake failed or whose session ended (EOFError, timeout) closes its socket itself, one whose "
            "request was merely refused does not (both confirmed against the loopback servers); (b) in-process asyncssh.listen servers on 127.0.0.1 (background loop) that reject the password, refuse the "
            "session channel / pty / shell, disconnect at the session request, hang up before the banner, or do not listen.  Oracle at every release point (with-block left, close() returned or raised): "
            "every library object open() acquired has had close()/abort() called (or belongs to a closed parent) [stub]; every server has seen every accepted connection go away (event-driven wait, "
            "2 s bound), no socket of this process is connected to a server port (/proc/net/tcp x /proc/self/fd), no thread left (asyncio executor workers ignored) [loopback]; no transport handle, "
            "isalive() False; repeated close() raises at most a scrapli exception; the released connection opens again against a healthy device.  open() directly over a FAILED open without close() is "
            "not generated for these transports (handle replacement, outside the quantifier).  Fixed finding c11-paramiko-failed-open-keeps-socket (ad24914; its histories are replayed every run from findings/ and the "
            "generators cover that region again: paramiko host-key / authentication / open_session failures with the session still up). "
            "Pty-child also opens over an existing session (never closed by the user): the unchanged tree releases the replaced session through PtyProcess.__del__ -> close() "
            "(the gen obligation '__del__ -> self.close()' is what that rests on; observed after gc.collect()). "
            "Suite two-conn is ORACLE-ONLY (the model has ONE connection; commandeer() is not translated by gen_lifecycle; single-connection NO_TERMINATE_ON_TIMEOUT histories are "
            "ALSO in the model-compared lifecycle suite): "
            "what the unchanged commandeer() does was read from the source and is what the oracle's rule R2 relies on — B takes A's transport object; when A holds a log handle "
            "B's channel adopts that same handle (B's own channel_log is not opened, open() is never called on B); the docstring promises that closing B closes the original "
            "connection too.  Oracle (on observations only): R1 a connection that is closed / whose with-block is left holds nothing (transport flag, isalive, channel.transport, "
            "its log handle); R2 closing the commandeering connection leaves the commandeered one released as well; R3 once no connection is in use any more (all closed, or "
            "closed through the commandeering one) no file object that EVER was a channel log is open (identity-tracked at every op, also handles no connection refers to any "
            "more), no fd points at a log file, no new fd / thread, (real: no socket, child, transport handle; log handles / fds also right after close B); a history that closes only the commandeered A leaves B in use: "
            "only A is judged; R4 open() of a released connection on a healthy device succeeds.  Which exception leaves nested blocks is not judged.  "
            "Known finding c11-reopen-adopted-log (replayed every run, the generator keeps away): re-open of a commandeering connection without own channel_log after close().",
    "technique": "Coq: verified abstract interpretation of generated method bodies + case analysis over outcomes; vm_compute correspondence against "
                 "real drivers with fault injection at every read/write; exhaustive evaluation of the translated PtyProcess.close() over its finite "
                 "state space; /proc observers (children incl. zombies, fds) on real pty children that exit by themselves, ignore the termination signals or cannot be exec'd; "
                 "recording stub ssh libraries + in-process loopback ssh servers failing open() at every internal step",
}
