"""C20 helper — suite session-inputs: whole logged sessions in which the USER'S INPUT TEXT is hostile to logging.

Every kind of operation that takes text from the user and announces it in the scrapli log — commands (send_command / send_commands,
channel.send_input, channel.send_input_and_read), configs (send_config / send_configs of a network driver), interactive inputs
(send_interactive / channel.send_inputs_interact, normal and hidden events, the expected responses too) and raw channel.write
(redacted or not) — is driven with inputs from families built around what a log call can trip over: a lone '%', '%s', '%d', '%%',
'%(name)s', '{}' / '{name}' braces, backslashes, quotes, and mixtures; with logging.raiseExceptions True (handleError prints to stderr)
and False (handleError is silent: a record that cannot be formatted just vanishes).

The device is harness/simdevice.SimDevice (causal: it echoes what it is sent and answers at the return; cisco_iosxe table for the
network driver, generic for GenericDriver) plus questions for the interactive dialogues; the transport is simdevice's scripted
transport with a wire record (reads and writes interleaved as they happened).  Logging is enable_basic_logging(level="debug") into a
file, buffering or plain handler, caller_info on/off.

Observers: the wire record; the log file; a capturing handler on the scrapli logger that sees every record the library emitted and asks
each one for its message (getMessage() raising is noted with the template and the arguments); the number of calls of
logging.Handler.handleError (counted whatever raiseExceptions says); stderr.

Oracle (independent of the Coq models): no record's formatting raises; no record went to handleError; the reads / writes parsed from
the file (literal_eval of the logged reprs) are exactly those on the wire, in order, hidden inputs as REDACTED; and NOTHING IS LOST: the
lines of the file correspond one to one, in order, to the records the library emitted (level column and read / other kind; consecutive
reads are one line with the buffering handler)."""
import io
import logging
import os
import shutil
import weakref

from .simdevice import AsyncScriptedTransport, Runner, ScriptedTransport, SimDevice, driver_class
from .simdevice import Starved as DevStarved

# inputs by family; none ends in '#' / '>' / '$' (would look like a prompt in the echo), none has a line break or outer blanks
FAMILIES = {
    "plain": ["show version", "x", "terminal monitor"],
    "percent": ["show interfaces | include 100%", "ping 10.0.0.1 rate 50%", "%", "show processes cpu | include 5%; 1%"],
    "%s": ["date +%s", "%s", "echo %s %s %s", "logging host 10.0.0.9 format %s"],
    "%d": ["printf %d 5", "%d", "%5.2f %r %x %i", "%c%c"],
    "%%": ["show cpu | include 5%%", "%%", "100%% %", "%%s %%%"],
    "%(name)s": ["echo %(name)s", "%(host)s", "%(asctime)s %(message)s", "%(levelname)-8s|%(port)d"],
    "braces": ["echo {}", "set {0} {name}", "{", "}}", "{host}:{port!r}", "{message}"],
    "backslash": ["dir c:\\temp", "\\", "grep a\\|b", "\\x41\\n", "\\\\", "c:\\%s\\new"],
    "mixed": ["%{s}\\%s", "'%r' \"%\" \\%", "it's 100% {done}\\", "%(", "% s"],
}
FAMILY_NAMES = list(FAMILIES)
OUTPUTS = [b"ok", b"", b"100% 'done' \\ {x} %s", b"line1\nline2 50%", b"\x1b[1mbold\x1b[0m %d", b"\xfe\xff %(x)s"]
QUESTIONS = ["Confirm [y/n]?", "Proceed 100%? [confirm]", "Source %s filename []?", "Password:", "{dest}\\path?", "Enter %(secret)s:"]
OP_KINDS = {
    "generic": ["send_command", "send_commands", "send_interactive", "chan_send_input", "chan_send_input_and_read", "chan_interact", "write"],
    "cisco_iosxe": ["send_command", "send_commands", "send_config", "send_configs", "send_interactive", "chan_send_input",
                    "chan_send_input_and_read", "chan_interact", "write"],
}


class Dev(SimDevice):
    """SimDevice + interactive dialogues: a line listed in `questions` is answered with the question (no prompt); the device then
    takes the next line as the answer (not echoed when the question says so) and prints output + prompt as for any content line"""

    def __init__(self, questions=None, **kw):
        super().__init__(**kw)
        self.questions = questions or {}
        self._echo_saved = None

    def _return(self):
        if self._echo_saved is not None:
            self.echo, self._echo_saved = self._echo_saved, None
        if self.dialog is None:
            raw = bytes(self.line)
            q = self.questions.get(raw.decode("latin-1").strip())
            if q is not None:
                self.line = bytearray()
                self.log.append((self.mode, raw, q[0]))
                self._emit(self.nl + q[0])
                if q[1]:
                    self._echo_saved, self.echo = self.echo, False
                return
        super()._return()


class _Wire:
    def _read(self):
        b = super()._read()
        self.events.append(("r", b))
        return b

    def _write(self, b):
        super()._write(b)
        self.events.append(("w", bytes(b)))


class WireTransport(_Wire, ScriptedTransport):
    pass


class AsyncWireTransport(_Wire, AsyncScriptedTransport):
    pass


class Capture(logging.Handler):
    """every record the library hands to the scrapli logger's handlers: template, arguments, level, and what getMessage() does"""

    def __init__(self):
        super().__init__()
        self.recs = []

    def emit(self, record):
        args = record.args
        enc, ok = [], isinstance(args, tuple) and isinstance(record.msg, str)
        for a in (args if isinstance(args, tuple) else ()):
            if isinstance(a, bytes):
                enc.append(["b", a.hex()])
            elif isinstance(a, str):
                enc.append(["s", a])
            elif a is None or isinstance(a, (bool, int, float, list)) and str(a) == repr(a):
                enc.append(["o", str(a)])          # an object whose str() and repr() are the same text
            else:
                enc.append(["?", repr(a)])
                ok = False
        try:
            m = record.getMessage()
            raised = None
        except Exception as e:  # noqa
            m, raised = None, type(e).__name__
        self.recs.append({"msg": record.msg if isinstance(record.msg, str) else repr(record.msg), "args": enc, "level": record.levelno,
                          "extra": {k: getattr(record, k) for k in ("host", "port", "uid") if hasattr(record, k)},
                          "path": record.pathname, "func": record.funcName, "lineno": record.lineno, "ok": ok,
                          "format_raised": raised, "is_read": bool(m is not None and m.startswith("read: ")),
                          "lines": None if m is None else m.count("\n") + 1})


# ------------------------------------------------------------------------------------------------
def _pick(rng, fam, n=1):
    return [rng.choice(FAMILIES[fam]) for _ in range(n)]


def _hidden(rng, fam):
    return "H!" + rng.choice(FAMILIES[fam])          # never equal to a visible input of the case


def gen_inputs_case(rng, i):
    stack = "sync" if i % 2 == 0 else "asyncio"
    raise_exceptions = (i // 2) % 2 == 0
    kind = "cisco_iosxe" if (i // 4) % 2 == 0 else "generic"
    kinds = list(OP_KINDS[kind])
    rng.shuffle(kinds)
    questions, ops = {}, []
    for j, k in enumerate(kinds):
        fam = FAMILY_NAMES[(i + j) % len(FAMILY_NAMES)]           # rotation: every op kind meets every family
        fam2 = rng.choice(FAMILY_NAMES)
        if k in ("send_command", "send_config", "chan_send_input"):
            ops.append([k, fam, _pick(rng, fam)[0]])
        elif k in ("send_commands", "send_configs"):
            ops.append([k, fam, _pick(rng, fam, rng.choice([1, 2, 3])) + _pick(rng, fam2, rng.choice([0, 1]))])
        elif k == "chan_send_input_and_read":
            ops.append([k, fam, _pick(rng, fam)[0], rng.choice([None, ["100% done"], ["no such %s", "50%"]])])
        elif k in ("send_interactive", "chan_interact"):
            opener = "%s %d %s" % (rng.choice(["copy", "clear", "reload"]), len(questions), _pick(rng, fam)[0])
            q = rng.choice(QUESTIONS)
            hidden = rng.random() < 0.6
            questions[opener] = [q.encode().hex(), hidden]
            answer = _hidden(rng, fam2) if hidden else _pick(rng, fam2)[0]
            ops.append([k, fam, [[opener, q, False], [answer, "", hidden]]])      # "" = the device's prompt, filled in at run time
        else:
            red = rng.random() < 0.4
            ops.append(["write", fam, _hidden(rng, fam) if red else _pick(rng, fam)[0], red])
    if rng.random() < 0.5:
        at = rng.randrange(len(ops) + 1)
        ops.insert(at, ["get_prompt", "plain"])
    return {"stack": stack, "kind": kind, "raise_exceptions": raise_exceptions, "buffered": rng.random() < 0.7, "caller": rng.random() < 0.25,
            "close": rng.choice(["close", "shutdown"]), "uid": rng.choice(["", "u1"]), "port": rng.choice([22, 23]),
            "chunking": rng.choice([["whole"], ["random", rng.randrange(1 << 30), 7], ["random", rng.randrange(1 << 30), 40]]),
            "outputs": [o.hex() for o in (rng.choice(OUTPUTS), rng.choice(OUTPUTS), rng.choice(OUTPUTS))], "questions": questions, "ops": ops}


def _visible_inputs(case):
    """(op kind, family, text) of every input the case sends"""
    out = []
    for op in case["ops"]:
        if op[0] in ("send_command", "send_config", "chan_send_input", "chan_send_input_and_read"):
            out.append((op[0], op[1], op[2], False))
        elif op[0] in ("send_commands", "send_configs"):
            out += [(op[0], op[1], t, False) for t in op[2]]
        elif op[0] in ("send_interactive", "chan_interact"):
            out += [(op[0], op[1], ev[0], bool(ev[2])) for ev in op[2]]
        elif op[0] == "write":
            out.append((op[0], op[1], op[2], bool(op[3])))
    return out


def hidden_texts(case):
    return [t for _, _, t, h in _visible_inputs(case) if h]


def tokenised(case):
    """the same session with every visible input replaced by a plain token of its own (INPUT000, INPUT001, ...): the reference run of
    the substitution oracle.  Returns (case, {token: original text})"""
    back, questions = {}, dict(case["questions"])

    def tok(text):
        t = "INPUT%03d" % len(back)
        back[t] = text
        if text in case["questions"]:
            questions[t] = case["questions"][text]
        return t
    ops = []
    for op in case["ops"]:
        if op[0] in ("send_command", "send_config", "chan_send_input"):
            ops.append([op[0], op[1], tok(op[2])])
        elif op[0] == "chan_send_input_and_read":
            ops.append([op[0], op[1], tok(op[2]), op[3]])
        elif op[0] in ("send_commands", "send_configs"):
            ops.append([op[0], op[1], [tok(t) for t in op[2]]])
        elif op[0] in ("send_interactive", "chan_interact"):
            ops.append([op[0], op[1], [[e[0] if e[2] else tok(e[0]), e[1], e[2]] for e in op[2]]])
        elif op[0] == "write":
            ops.append([op[0], op[1], op[2] if op[3] else tok(op[2]), op[3]])
        else:
            ops.append(op)
    return dict(case, ops=ops, questions=questions), back


def other_messages(obs, case):
    """(level, message) of the lines that are neither reads nor writes"""
    return [(lv, m) for lv, m in _file_lines(obs["file"], case["caller"]) if not m.startswith(("read : ", "read: ", "write: "))]


def run_inputs_impl(case, workdir):
    import scrapli.logging as sl
    from .c20 import TMASK, TS_RE, _Quiet, _tmp
    d = _tmp(workdir, "inp")
    os.makedirs(d, exist_ok=True)
    logpath = os.path.join(d, "scrapli.log")
    outs = [bytes.fromhex(o) for o in case["outputs"]]
    dev = Dev(platform=case["kind"], host="router1", questions={k: (bytes.fromhex(v[0]), v[1]) for k, v in case["questions"].items()},
              outputs=lambda mode, line: outs[(len(line) + len(mode)) % len(outs)])
    dev.start()
    cap = Capture()
    handle_errors = []
    orig_handle_error = logging.Handler.handleError

    def counting(self, record):
        handle_errors.append(record.msg if isinstance(record.msg, str) else repr(record.msg))
        return orig_handle_error(self, record)

    res, exc, events = [], None, []
    runner = Runner(case["stack"])
    with _Quiet() as q:
        logging.Handler.handleError = counting
        logging.raiseExceptions = case["raise_exceptions"]            # (_Quiet restores the process-wide value)
        try:
            q.lg.addHandler(cap)
            sl.enable_basic_logging(file=logpath, level="debug", buffer_log=case["buffered"], caller_info=case["caller"])
            h = [x for x in q.new_handlers() if x is not cap][0]
            conn = driver_class(case["kind"], case["stack"])(
                host="sim", port=case["port"], transport="telnet" if case["stack"] == "sync" else "asynctelnet", auth_bypass=True,
                timeout_ops=0, timeout_transport=0, timeout_socket=0, logging_uid=case["uid"], channel_log=False)
            t = (WireTransport if case["stack"] == "sync" else AsyncWireTransport)(dev, tuple(case["chunking"]), None,
                                                                                    base_transport_args=conn._base_transport_args)
            t.events = events
            conn.transport = t
            conn.channel.transport = t

            def one(op):
                k = op[0]
                ch = conn.channel
                if k == "get_prompt":
                    return runner.call(conn.get_prompt)
                if k in ("send_command", "send_config"):
                    return runner.call(getattr(conn, k), op[2])
                if k in ("send_commands", "send_configs"):
                    return runner.call(getattr(conn, k), list(op[2]))
                if k == "chan_send_input":
                    return runner.call(ch.send_input, op[2])
                if k == "chan_send_input_and_read":
                    return runner.call(ch.send_input_and_read, op[2], expected_outputs=op[3], read_duration=600)
                if k in ("send_interactive", "chan_interact"):
                    # "" = the prompt the dialogue ends at: the driver-level call works at the default privilege level
                    end = "router1#" if k == "send_interactive" else dev.prompt().decode()
                    evs = [(e[0], e[1] or end, e[2]) for e in op[2]]
                    return runner.call(conn.send_interactive if k == "send_interactive" else ch.send_inputs_interact, evs)
                if k == "write":
                    ch.write(op[2], redacted=op[3])
                    # what was typed is sent off with a return and the answer is read, as any operation of the library does
                    ch.send_return()
                    return runner.call(ch._read_until_prompt)                  # noqa
                raise ValueError(op)

            def note(name, fn):
                try:
                    fn()
                    res.append((name, None))
                except DevStarved:
                    res.append((name, "Starved"))
                except Exception as e:  # noqa
                    res.append((name, type(e).__name__))

            note("open", lambda: runner.call(conn.open))
            for op in case["ops"]:
                note(op[0], lambda op=op: one(op))
            note("close", lambda: runner.call(conn.close))
            if case["close"] == "shutdown":
                logging.shutdown([weakref.ref(h)])
            else:
                h.close()
        except Exception as e:  # noqa
            exc = type(e).__name__
        finally:
            logging.Handler.handleError = orig_handle_error
            runner.close()
        errors = q.errors()
    content = open(logpath, "rb").read().decode("utf-8", "replace") if os.path.exists(logpath) else ""
    shutil.rmtree(d, ignore_errors=True)
    return {"file": TS_RE.sub(TMASK, content), "errors": errors, "handle_error_calls": len(handle_errors), "handle_error_templates": handle_errors[:5],
            "escaped": [], "exc": exc, "records": cap.recs, "events": [(k, c.hex()) for k, c in events], "results": res}


def _file_lines(content, caller):
    ncol = 7 if caller else 4
    lines = content.split("\n")
    if lines and lines[-1] == "":
        lines.pop()
    out = []
    for ln in lines[1:]:
        parts = ln.split(" | ", ncol)
        if len(parts) != ncol + 1:
            raise ValueError("unparsable line %r" % ln)
        out.append((parts[2].strip(), parts[-1]))
    return out


def oracle_inputs(case, obs, ref=None):
    """ref = (tokenised case, {token: text}, its observation) or None: the substitution oracle is skipped"""
    from .c20 import _segments_from_events, _segments_from_file
    if obs["exc"]:
        return "session set-up raised %s" % obs["exc"]
    for name, r in obs["results"]:
        if name in ("open", "close") and r is not None:
            return "%s() raised %s" % (name, r)
    how = "logging.raiseExceptions = %s" % case["raise_exceptions"]
    bad = [r for r in obs["records"] if r["format_raised"]]
    if bad:
        return ("formatting raises: getMessage() of a record the library emitted raises %s — template %r with %d argument(s); the record cannot be "
                "written to any log (%s)" % (bad[0]["format_raised"], bad[0]["msg"], len(bad[0]["args"]), how))
    if obs["handle_error_calls"] or obs["errors"]:
        return "%d record(s) went to Handler.handleError instead of the log file (%d reported on stderr; %s): %r" % (
            obs["handle_error_calls"], obs["errors"], how, obs["handle_error_templates"][:2])
    want = _segments_from_events(obs["events"])
    red = hidden_texts(case)
    try:
        got = _segments_from_file(obs["file"], case["buffered"], case["caller"], red)
        lines = _file_lines(obs["file"], case["caller"])
    except Exception as e:  # noqa
        return "log file not parsable: %s" % e
    want2 = [(("w", None) if (isinstance(s, tuple) and s[1].decode() in red) else s) for s in want]
    if got != want2:
        k = next((j for j, (a, b) in enumerate(zip(got, want2)) if a != b), min(len(got), len(want2)))
        return "log file does not hold the session: reads/writes in file %r, on the wire %r (from segment %d on)" % (got[k:k + 4], want2[k:k + 4], k)
    for t in red:          # (the simulated device echoes what it is sent: the lines of the reads are not looked at)
        if any(t in m for _, m in lines if not m.startswith(("read : ", "read: "))):
            return "the hidden input %r is in a message of the log file" % t
    # nothing is lost: one line per emitted record, in order (consecutive reads coalesced by the buffering handler)
    exp = []
    for r in obs["records"]:
        kind = "read" if r["is_read"] else "other"
        if case["buffered"] and kind == "read" and exp and exp[-1][1] == "read":
            continue
        exp.append((logging.getLevelName(r["level"]), kind))
    seen = [(lv, "read" if (m.startswith("read : ") if case["buffered"] else m.startswith("read: ")) else "other") for lv, m in lines]
    if seen != exp:
        k = next((j for j, (a, b) in enumerate(zip(seen, exp)) if a != b), min(len(seen), len(exp)))
        return ("messages lost or out of order: the library emitted %d loggable records (%d lines after coalescing), the file has %d lines; first "
                "difference at line %d: file %r, emitted %r (%s)" % (len(obs["records"]), len(exp), len(seen), k + 2, seen[k:k + 3], exp[k:k + 3], how))
    if ref is not None:
        # the user's text is DATA: the messages of this session are those of the same session typed with plain tokens, token for text
        tcase, back, tobs = ref
        try:
            plain = other_messages(tobs, tcase)
        except Exception as e:  # noqa
            return "log file of the reference session (inputs replaced by plain tokens) not parsable: %s" % e
        mine = other_messages(obs, case)

        def subst(m):
            for t, text in back.items():
                m = m.replace(t, text)
            return m
        # (what the driver DOES may depend on the text — a prompt-like echo changes the privilege detection —, so only the messages
        # that mention an input are compared: each of them, token replaced by the text, is in this session's file, in the same order)
        announce = [(lv, subst(m)) for lv, m in plain if any(t in m for t in back)]
        pos = 0
        for n, a in enumerate(announce):
            try:
                pos = mine.index(a, pos) + 1
            except ValueError:
                near = [x for x in mine[pos:] if x[0] == a[0]][:2]
                return ("the user's input is not logged as it was typed: the same session typed with plain tokens in the place of the inputs logs "
                        "(token replaced by the input) %r as its message no. %d that mentions an input; this session's file has no such message "
                        "there (next messages of that level: %r; %s)" % (a, n + 1, near, how))
    return None


def run_and_judge(case, workdir):
    obs = run_inputs_impl(case, workdir)
    tcase, back = tokenised(case)
    return obs, oracle_inputs(case, obs, (tcase, back, run_inputs_impl(tcase, workdir)))


def shrink_inputs(case, workdir, why):
    """drop operations while the oracle keeps failing with the same words"""
    head = why[:30]

    def fails(c):
        o, w = run_and_judge(c, workdir)
        return (o, w) if (w and w[:30] == head) else None
    cur, best = case, fails(case)
    if best is None:
        return case, run_inputs_impl(case, workdir), why
    changed = True
    while changed:
        changed = False
        for j in range(len(cur["ops"])):
            cand = dict(cur, ops=cur["ops"][:j] + cur["ops"][j + 1:])
            r = fails(cand)
            if r:
                cur, best, changed = cand, r, True
                break
    # a list of commands / configs: keep one
    for j, op in enumerate(cur["ops"]):
        if op[0] in ("send_commands", "send_configs") and len(op[2]) > 1:
            for t in op[2]:
                cand = dict(cur, ops=cur["ops"][:j] + [[op[0], op[1], [t]]] + cur["ops"][j + 1:])
                r = fails(cand)
                if r:
                    cur, best = cand, r
                    break
    return cur, best[0], best[1]


def describe(case, obs):
    out = ["%s %s driver over a simulated %s device, enable_basic_logging(level='debug', buffer_log=%r, caller_info=%r), logging.raiseExceptions = %r" % (
        case["stack"], case["kind"], case["kind"], case["buffered"], case["caller"], case["raise_exceptions"])]
    out.append("operations (kind, input family, input):")
    for op in case["ops"]:
        out.append("   %r" % (op,))
    out.append("results: %r" % (obs["results"],))
    out.append("records whose getMessage() raises: %r" % ([(r["msg"], r["args"], r["format_raised"]) for r in obs["records"] if r["format_raised"]],))
    out.append("Handler.handleError calls: %d, '--- Logging error ---' on stderr: %d" % (obs["handle_error_calls"], obs["errors"]))
    out.append("file:\n" + obs["file"])
    out.append("wire: %r" % ([(k, bytes.fromhex(c)) for k, c in obs["events"]],))
    return "\n".join(out)
