"""C18 — argument-effect observer and transport-name spellings (oracle only, no model behind it).

"every supplied argument takes effect" is decided on the object that was BUILT, not by comparing two
constructions with each other (factory and direct construction share every driver's own
``super().__init__`` call, so a keyword forwarded under another keyword's name looks the same on both).

scenario = (core driver class, route: direct construction | Scrapli / AsyncScrapli, base transport of the
class's own stack, keyword dictionary).  The keywords are read from the class's signature; each one gets a
distinctive value of its documented type.  The built object is flattened into slots (path -> leaf: driver
attributes, channel args, transport args, plugin transport args, loggers, channel, transport) and compared
with the same construction WITHOUT the keywords (the baseline):

* own slot: the documented place(s) where the keyword takes effect (EFFECT below, written from the
  docstrings) hold the supplied value (literally; objects by identity);
* no other slot: every slot that differs from the baseline is named after one of the supplied keywords
  (last attribute / key of the path, see ``owners``), so a value never shows up under another keyword's name;
* each keyword alone, and all keywords together.

transport-name spellings: case variants / padded variants of the six core transport names, on both routes and
both stacks.  Oracle: a driver whose stack (``open`` is a coroutine function or not) differs from its
transport's is never returned; a spelled name is either rejected with a scrapli error or gives a consistent
object.
"""
import asyncio
import inspect
import logging
import os
import re
import types
import warnings

from . import common

# hand-written: platform -> (sync class name, asyncio class name) in scrapli.driver.core
CORE_CLASSES = {
    "cisco_iosxe": ("IOSXEDriver", "AsyncIOSXEDriver"), "cisco_iosxr": ("IOSXRDriver", "AsyncIOSXRDriver"),
    "cisco_nxos": ("NXOSDriver", "AsyncNXOSDriver"), "arista_eos": ("EOSDriver", "AsyncEOSDriver"),
    "juniper_junos": ("JunosDriver", "AsyncJunosDriver"),
}
BASE_TRANSPORTS = {False: ["system", "telnet", "paramiko"], True: ["asynctelnet", "asyncssh"]}
CORE_TRANSPORT_NAMES = ["system", "telnet", "ssh2", "paramiko", "asynctelnet", "asyncssh"]
CAMEL = {"system": "System", "telnet": "Telnet", "ssh2": "Ssh2", "paramiko": "Paramiko", "asynctelnet": "AsyncTelnet", "asyncssh": "AsyncSSH"}


def files_dir():
    d = os.path.join(common.BUILD, "C18")
    os.makedirs(d, exist_ok=True)
    for n in ("ssh_config_arg", "known_hosts_arg", "id_key"):
        p = os.path.join(d, n)
        if not os.path.exists(p):
            open(p, "w").write("k" if n == "id_key" else "")
    return d


def value_of(w, spec):
    if isinstance(spec, dict) and "file" in spec:
        return os.path.join(files_dir(), spec["file"])
    return w.val(spec)


def distinct_values(is_async, base_transport):
    """one distinctive, well-typed value per constructor keyword (value specs, JSON)"""
    other = [t for t in BASE_TRANSPORTS[is_async] if t != base_transport][0]
    return {
        "host": "host-arg.example", "port": 20022, "auth_username": "user-arg", "auth_password": "password-arg",
        "auth_private_key": {"keyfile": 1}, "auth_private_key_passphrase": "keypass-arg", "auth_strict_key": False, "auth_bypass": True,
        "auth_telnet_login_pattern": "^login-arg:$", "auth_password_pattern": "^passwd-pat-arg:$", "auth_passphrase_pattern": "^phrase-pat-arg:$",
        "timeout_socket": 31.25, "timeout_transport": 32.5, "timeout_ops": 33.75, "comms_return_char": "\r\n",
        "comms_roughly_match_inputs": True, "ssh_config_file": {"file": "ssh_config_arg"}, "ssh_known_hosts_file": {"file": "known_hosts_arg"},
        "on_init": {"obj": "fn_a"}, "on_open": {"obj": "afn_a" if is_async else "fn_b"}, "on_close": {"obj": "afn_b" if is_async else "fn_c"},
        "transport": other, "transport_options": {"obj": "opts"}, "channel_log": "/tmp/c18_never_opened_arg.log", "channel_log_mode": "append",
        "channel_lock": True, "logging_uid": "uid-arg", "auth_secondary": "secondary-arg", "failed_when_contains": {"obj": "fwc"},
        "textfsm_platform": "tfp-arg", "genie_platform": "gp-arg", "privilege_levels": {"obj": "privs"},
        "default_desired_privilege_level": "configuration", "comms_prompt_pattern": "^prompt-arg>$",
    }


# where a keyword takes effect (from the constructor docstrings): paths on the connection; "?" = only when the object has that slot
EFFECT = {
    "host": ["_base_transport_args.host", "host"], "port": ["_base_transport_args.port", "port"],
    "auth_username": ["auth_username", "?_plugin_transport_args.auth_username"],
    "auth_password": ["auth_password", "?_plugin_transport_args.auth_password"],
    "auth_private_key": ["auth_private_key", "?_plugin_transport_args.auth_private_key"],
    "auth_private_key_passphrase": ["auth_private_key_passphrase"],
    "auth_strict_key": ["auth_strict_key", "?_plugin_transport_args.auth_strict_key"], "auth_bypass": ["auth_bypass"],
    "auth_telnet_login_pattern": ["_base_channel_args.auth_telnet_login_pattern", "channel._base_channel_args.auth_telnet_login_pattern"],
    "auth_password_pattern": ["_base_channel_args.auth_password_pattern", "channel._base_channel_args.auth_password_pattern"],
    "auth_passphrase_pattern": ["_base_channel_args.auth_passphrase_pattern", "channel._base_channel_args.auth_passphrase_pattern"],
    "timeout_socket": ["_base_transport_args.timeout_socket", "transport._base_transport_args.timeout_socket"],
    "timeout_transport": ["_base_transport_args.timeout_transport", "transport._base_transport_args.timeout_transport"],
    "timeout_ops": ["_base_channel_args.timeout_ops", "channel._base_channel_args.timeout_ops"],
    "comms_prompt_pattern": ["_base_channel_args.comms_prompt_pattern"],
    "comms_return_char": ["_base_channel_args.comms_return_char", "channel._base_channel_args.comms_return_char"],
    "comms_roughly_match_inputs": ["_base_channel_args.comms_roughly_match_inputs"],
    "ssh_config_file": ["ssh_config_file", "?_plugin_transport_args.ssh_config_file"],
    "ssh_known_hosts_file": ["ssh_known_hosts_file", "?_plugin_transport_args.ssh_known_hosts_file"],
    "on_init": ["on_init"], "on_open": ["on_open"], "on_close": ["on_close"], "transport": ["transport_name"],
    "transport_options": ["_base_transport_args.transport_options", "transport._base_transport_args.transport_options"],
    "channel_log": ["_base_channel_args.channel_log"], "channel_log_mode": ["_base_channel_args.channel_log_mode"],
    "channel_lock": ["_base_channel_args.channel_lock"], "logging_uid": ["_base_transport_args.logging_uid"],
    "auth_secondary": ["auth_secondary"], "failed_when_contains": ["failed_when_contains"], "textfsm_platform": ["textfsm_platform"],
    "genie_platform": ["genie_platform"], "privilege_levels": ["privilege_levels"],
    "default_desired_privilege_level": ["default_desired_privilege_level"],
}
SSH_ONLY = {"ssh_config_file", "ssh_known_hosts_file"}
TRANSFORM = {"channel_log_mode": {"write": "w", "append": "a"}}
# slots that a keyword owns beside the ones named after it (documented side effects)
ALSO_OWNS = {
    "logging_uid": ["uid", "extra"],                            # log records carry the uid
    "transport": ["transport_name", "transport", "_plugin_transport_args", "port"],   # the transport object, its arguments, the default port
    "privilege_levels": ["_priv_graph", "comms_prompt_pattern"],  # the prompt pattern of a network driver is built from the levels
}


def keywords_of(cls):
    return [p for p in inspect.signature(cls.__init__).parameters if p not in ("self", "kwargs")]


# ---------------------------------------------------------------------------------------------
# slots
# ---------------------------------------------------------------------------------------------
def flat(o, w, path, out, seen, depth=0):
    """path -> leaf for everything reachable from a driver object (same classification as c18.canon_obj)"""
    if o is None or isinstance(o, (bool, int, float, str, bytes)):
        out[path] = (type(o).__name__, repr(o))
    elif id(o) in w.user_ids:
        out[path] = ("user", w.user_ids[id(o)])
    elif isinstance(o, w.PL):
        for s in w.PL.__slots__:
            flat(getattr(o, s), w, path + "." + s, out, seen, depth + 1)
    elif isinstance(o, (types.FunctionType, types.BuiltinFunctionType, types.MethodType, type)):
        out[path] = ("callable", getattr(o, "__qualname__", "?"), id(o))
    elif isinstance(o, (list, tuple)):
        out[path + "#len"] = len(o)
        for i, x in enumerate(o):
            flat(x, w, "%s[%d]" % (path, i), out, seen, depth + 1)
    elif isinstance(o, (set, frozenset)):
        out[path] = ("set", tuple(sorted(map(repr, o))))
    elif isinstance(o, dict):
        out[path + "#keys"] = tuple(sorted(map(repr, o)))
        for k, v in o.items():
            flat(v, w, "%s[%r]" % (path, k), out, seen, depth + 1)
    elif isinstance(o, logging.LoggerAdapter):
        out[path + "#logger"] = o.logger.name
        flat(o.extra, w, path + ".extra", out, seen, depth + 1)
    elif isinstance(o, re.Pattern):
        out[path] = ("re", repr(o.pattern), o.flags)
    elif id(o) in seen or depth > 6:
        out[path] = ("ref", type(o).__name__)
    elif hasattr(o, "__dict__"):
        seen.add(id(o))
        out[path + "#type"] = type(o).__name__
        for k, v in vars(o).items():
            flat(v, w, path + "." + k, out, seen, depth + 1)
    else:
        out[path] = ("obj", type(o).__name__)


def slots(o, w):
    out = {}
    flat(o, w, "conn", out, set())
    return out


_SEG = re.compile(r"\.([A-Za-z_][A-Za-z_0-9]*)|\['([^']*)'\]")


def owners(path, keywords):
    """the keywords a slot belongs to: those it is named after (an attribute / key on its path) or documented to own it"""
    segs = {a or b for a, b in _SEG.findall(path)}
    out = set()
    for k in keywords:
        if k in segs or any(s in segs for s in ALSO_OWNS.get(k, ())):
            out.add(k)
    return out


def resolve(o, dotted):
    for a in dotted.split("."):
        o = getattr(o, a)
    return o


def same_value(a, b):
    if isinstance(a, (bool, int, float, str)) or a is None or isinstance(b, (bool, int, float, str)) or b is None:
        return type(a) is type(b) and a == b
    return a is b


def is_async_obj(o):
    return asyncio.iscoroutinefunction(getattr(type(o), "open", None))


def stack_failures(obj, how):
    """a driver and the transport inside it belong to the same stack"""
    if obj is None or not hasattr(obj, "transport"):
        return []
    d, t = is_async_obj(obj), is_async_obj(obj.transport)
    if d != t:
        return ["%s returned %s %s wrapping %s transport %s (transport=%r)" % (
            how, "an asyncio" if d else "a sync", type(obj).__name__, "an asyncio" if t else "a sync", type(obj.transport).__name__,
            getattr(obj, "transport_name", None))]
    return []


def is_spelling(tr):
    """a core transport name not written exactly"""
    return isinstance(tr, str) and tr not in CORE_TRANSPORT_NAMES and tr.strip().lower() in CORE_TRANSPORT_NAMES


def spellings(name):
    out = [name.upper(), name.capitalize(), CAMEL[name], " " + name, name + " ", "\t" + name, name + "\n", " " + CAMEL[name] + " "]
    seen, res = set(), []
    for s in out:
        if s != name and s not in seen:
            seen.add(s)
            res.append(s)
    return res


# ---------------------------------------------------------------------------------------------
# building
# ---------------------------------------------------------------------------------------------
def build(w, case, kw):
    """-> (obj | None, exception | None)"""
    from scrapli.driver import core as C
    names = CORE_CLASSES[case["platform"]]
    cls = getattr(C, names[1 if case["async"] else 0])
    with warnings.catch_warnings():
        warnings.simplefilter("ignore")
        try:
            if case["via"] == "direct":
                return cls(**kw), None
            fac = w.F.AsyncScrapli if case["async"] else w.F.Scrapli
            return fac(platform=case["platform"], **kw), None
        except Exception as e:  # noqa
            return None, e


def evaluate(w, case):
    """-> list of failure strings.  case = {platform, async, via: direct|factory, transport: base transport, kw: [[k, spec]]}"""
    from scrapli.driver import core as C
    from scrapli.exceptions import ScrapliException
    cls = getattr(C, CORE_CLASSES[case["platform"]][1 if case["async"] else 0])
    how = ("%s(...)" % cls.__name__) if case["via"] == "direct" else ("%s(platform=%r, ...)" % ("AsyncScrapli" if case["async"] else "Scrapli", case["platform"]))
    base_kw = {"host": "h", "transport": case["transport"]}
    kw = dict(base_kw)
    supplied = []
    for k, s in case["kw"]:
        kw[k] = value_of(w, s)
        supplied.append(k)
    fails = []
    obj, exc = build(w, case, kw)
    tr = kw.get("transport")
    if exc is not None:
        if is_spelling(tr):
            if not isinstance(exc, ScrapliException):
                fails.append("%s with transport=%r: rejected with %s, not a scrapli error" % (how, tr, type(exc).__name__))
            return fails
        return ["%s with %s raised %s" % (how, sorted(supplied), type(exc).__name__)]
    fails += stack_failures(obj, how)
    if type(obj) is not cls:
        fails.append("%s built %s, expected %s" % (how, type(obj).__name__, cls.__name__))
    if is_spelling(tr):
        return fails
    base, bexc = build(w, case, base_kw)
    if bexc is not None:
        return fails + ["%s with only host and transport=%r raised %s" % (how, case["transport"], type(bexc).__name__)]
    # own slot
    for k in supplied:
        v = kw[k]
        if k in SSH_ONLY and "telnet" in tr:
            continue          # ssh client files: documented as ignored by the telnet transports (no ssh underneath)
        want = TRANSFORM.get(k, {}).get(v, v) if isinstance(v, str) else v
        for p in EFFECT.get(k, [k]):
            opt = p.startswith("?")
            p = p.lstrip("?")
            try:
                got = resolve(obj, p)
            except AttributeError:
                if not opt:
                    fails.append("argument %s=%r: the connection has no slot %s" % (k, v, p))
                continue
            if not same_value(got, want):
                fails.append("argument %s=%r did not take effect: conn.%s is %r" % (k, v, p, got))
        if k in ("auth_telnet_login_pattern", "auth_password_pattern", "auth_passphrase_pattern"):
            # what the channel searches for while authenticating
            got = getattr(obj.channel, k).pattern
            if got != v.encode():
                fails.append("argument %s=%r did not take effect: the channel searches for %r" % (k, v, got))
    # no other slot
    so, sb = slots(obj, w), slots(base, w)
    stray = []
    for p in sorted(set(so) | set(sb)):
        if so.get(p) != sb.get(p) and not owners(p, supplied):
            stray.append(p)
    for p in stray[:3]:
        fails.append("supplying only %s changed %s: %s -> %s" % (sorted(supplied), p, _short(sb.get(p)), _short(so.get(p))))
    return fails


def _short(x):
    s = repr(x[:2] if isinstance(x, tuple) and x and x[0] == "callable" else x)
    return s if len(s) < 160 else s[:160] + "..."


# ---------------------------------------------------------------------------------------------
# scenarios
# ---------------------------------------------------------------------------------------------
def scenarios(w, rng, thorough):
    from scrapli.driver import core as C
    out = []
    for plat, names in CORE_CLASSES.items():
        for is_async in (False, True):
            cls = getattr(C, names[1 if is_async else 0])
            kws = keywords_of(cls)
            trs = BASE_TRANSPORTS[is_async]
            if not thorough and not is_async:
                # a transport WITH plugin arguments (system) always; the other two rotate
                trs = ["system", rng.choice(["telnet", "paramiko"])]
            for tr in trs:
                vals = distinct_values(is_async, tr)
                missing = [k for k in kws if k not in vals]
                if missing:
                    raise ValueError("constructor keywords without a value: %s of %s" % (missing, cls.__name__))
                for via in ("direct", "factory"):
                    c0 = {"platform": plat, "async": is_async, "via": via, "transport": tr}
                    for k in kws:
                        out.append(("alone", dict(c0, kw=[[k, vals[k]]])))
                    every = [[k, vals[k]] for k in kws if k != "transport"]
                    rng.shuffle(every)
                    out.append(("together", dict(c0, kw=every)))
                    pair = rng.sample([k for k in kws if k != "transport"], 2)
                    out.append(("pair", dict(c0, kw=[[k, vals[k]] for k in pair])))
    # transport-name spellings, both routes, both stacks (a spelled sync name on the asyncio stack and the reverse included)
    names = CORE_TRANSPORT_NAMES
    plats = list(CORE_CLASSES)
    n = 0
    for name in names:
        for sp in spellings(name):
            for is_async in (False, True):
                for via in ("direct", "factory"):
                    plat = plats[n % len(plats)] if not thorough else None
                    n += 1
                    for p in ([plat] if plat else plats):
                        out.append(("spelling", {"platform": p, "async": is_async, "via": via, "transport": BASE_TRANSPORTS[is_async][0],
                                                 "kw": [["transport", sp]]}))
    return out


def shrink(w, case):
    cur = dict(case, kw=list(case["kw"]))
    changed = True
    while changed and len(cur["kw"]) > 1:
        changed = False
        for i in range(len(cur["kw"])):
            t = dict(cur, kw=cur["kw"][:i] + cur["kw"][i + 1:])
            if evaluate(w, t):
                cur, changed = t, True
                break
    return cur


def run(w, rep, thorough):
    import json
    import time
    t0 = time.time()
    sc = scenarios(w, rep.rng, thorough)
    dist = {"scenarios": len(sc), "kind": {}, "route": {"direct": 0, "factory": 0}, "stack": {"sync": 0, "async": 0}, "classes": set(), "keywords": set(),
            "base_transports": {}, "spelling_outcomes": {}}
    failed = []
    for kind, case in sc:
        dist["kind"][kind] = dist["kind"].get(kind, 0) + 1
        dist["route"][case["via"]] += 1
        dist["stack"]["async" if case["async"] else "sync"] += 1
        dist["classes"].add(CORE_CLASSES[case["platform"]][1 if case["async"] else 0])
        dist["base_transports"][case["transport"]] = dist["base_transports"].get(case["transport"], 0) + 1
        for k, _ in case["kw"]:
            dist["keywords"].add(k)
        rep.case(("a", json.dumps(case, sort_keys=True)), nontrivial=True)
        fails = evaluate(w, case)
        if kind == "spelling":
            oc = "fails" if fails else "ok"
            dist["spelling_outcomes"][oc] = dist["spelling_outcomes"].get(oc, 0) + 1
        if fails:
            failed.append((kind, case, fails))
    dist["classes"], dist["keywords"] = sorted(dist["classes"]), sorted(dist["keywords"])
    dist["oracle_failures"] = len(failed)
    seen = set()
    for kind, case, fails in failed:
        sig = (kind, fails[0].split(":")[0][:50] if kind != "spelling" else "stack")
        if sig in seen:
            continue
        seen.add(sig)
        small = shrink(w, case)
        f2 = evaluate(w, small)
        rep.violation("argument effect: " + "; ".join((f2 or fails)[:3]),
                      {"suite": "argeffect", "case": small if f2 else case, "rerun": "./check C18 --replay <this file>"})
        if len(seen) >= 4:
            break
    if sc:
        rep.sample({"argument_effect_scenario": sc[len(sc) // 3][1]})
    dist["wall_s"] = round(time.time() - t0, 1)
    rep.coverage["argument_effect"] = dist
    return failed


def replay(w, case):
    import json
    fails = evaluate(w, case)
    print("case:", json.dumps(case))
    obj, exc = build(w, case, dict({"host": "h", "transport": case["transport"]}, **{k: value_of(w, s) for k, s in case["kw"]}))
    print("outcome:", ("raised " + type(exc).__name__) if exc is not None else "built %s wrapping %s" % (type(obj).__name__, type(obj.transport).__name__))
    for f in fails:
        print("  FAIL:", f)
    print("property FAILS on this input" if fails else "property holds on this input")
    return 1 if fails else 0
