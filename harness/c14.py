"""C14 — per-call timeout overrides never outlive the call.

proof: coq/proofs/TimeoutRestore_Proofs.v (timeouts_restored: every operation accepting a per-call
timeout x every override value x every outcome x every sequence of calls, nested callbacks
included), props/C14.v.  tie: Gen_Timeouts.v (signatures, defaults, ast facts: every restore sits in
a `finally`, every hand-over of timeout_ops is by keyword) regenerated from the source + correspondence
of model/TimeoutRestore.v [run_op] against the real sync and asyncio drivers over the simulated
device: state after, outcome class and the de-duplicated sequence of (timeout_ops,
timeout_transport, session timeout) values seen at every transport read/write of the call.

Nothing in scrapli is patched: the drivers are real, the transport is a scripted one (a subclass of
harness.simdevice's, with per-call read/write fault plans), and instance-level wrappers only record
which phase of an operation an I/O event belongs to.

The thread based timeout of the sync stack (system / telnet transports, windows, drivers used off the main
thread) has its own scenario kind in harness/c14_pool.py: real threads, a transport whose blocked read is
released by close() after a latency or never, the timeouts observed at the moment the call has ended and
again once no thread is left in the call's body; model TimeoutRestore.pool_call, whose [joins] parameter
is read from the source by gen_timeouts (the executor's exit joins the worker).

Calls on DIFFERENT connections that overlap in time (asyncio tasks in one loop, threads) have their own scenario
kind in harness/c14_overlap.py: 2-3 real drivers with different configured timeouts, per-call overrides, a
deterministic interleaving through transports that park a call on a read; model TimeoutOverlap (product of the
connections' automata; where timeout_modifier keeps the saved value - a local of the wrapper call or a slot shared
by all connections - is read from the source by gen_timeouts)."""
import asyncio
import json
import math
import os
import random
import re
import time

from . import c14_overlap, c14_pool, common
from .simdevice import AsyncScriptedTransport, ScriptedTransport, SimDevice, Starved, make_driver

LEVEL = "proof"
SOURCES = ["scrapli/decorators.py", "scrapli/channel/sync_channel.py", "scrapli/channel/async_channel.py",
           "scrapli/driver/generic/sync_driver.py", "scrapli/driver/generic/async_driver.py",
           "scrapli/driver/generic/base_driver.py", "scrapli/driver/network/sync_driver.py",
           "scrapli/driver/network/async_driver.py", "scrapli/driver/base/base_driver.py"]


class CallbackBoom(Exception):
    """what a user callback raises in the scenarios"""


# ------------------------------------------------------------------------------------------------
# transports: scripted device + per-call fault plan + observation of the timeouts at every I/O
# ------------------------------------------------------------------------------------------------
class _C14Mixin:
    def c14_init(self, conn, block=0.0):
        self.c14_conn = conn
        self.c14_plan = {}        # ("r"|"w", attempt index within the top-level call) -> fault kind
        self.c14_n = {"r": 0, "w": 0}
        self.c14_block = block    # > 0: a read with nothing pending blocks that long before Starved
        self.session_timeout = 0

    def c14_fault(self, kind, ev):
        n = self.c14_n[kind]
        self.c14_n[kind] = n + 1
        f = self.c14_plan.get((kind, n))
        if f is None:
            return
        from scrapli.exceptions import ScrapliConnectionError, ScrapliConnectionNotOpened, ScrapliTimeout
        if f == "timeout":
            e = ScrapliTimeout("simulated transport timeout")
        elif f == "conn":
            e = ScrapliConnectionError("simulated transient connection error")
        elif f == "lost":
            self.device.closed = True
            e = ScrapliConnectionError("simulated: peer closed the connection")
        elif f == "closed":
            self.opened = False
            e = ScrapliConnectionNotOpened("simulated: transport closed")
        elif f == "other":
            e = RuntimeError("simulated unexpected error")
        elif f == "interrupt":
            e = KeyboardInterrupt() if self.c14_conn.stack == "sync" else asyncio.CancelledError()
        else:
            raise ValueError(f)
        ev["raised"] = type(e).__name__
        raise e


class _SessMixin:
    """what paramiko / ssh2 transports have: the driver's timeout_transport setter pushes the value
    into the library session through this method, which refuses when there is no session"""

    def _set_timeout(self, value):
        from scrapli.exceptions import ScrapliConnectionNotOpened
        if not self.opened:
            raise ScrapliConnectionNotOpened
        self.session_timeout = value


class C14Transport(_C14Mixin, ScriptedTransport):
    def open(self):
        self.opened = True
        self.session_timeout = self._base_transport_args.timeout_transport

    def read(self):
        ev = self.c14_conn.io_event("r")
        try:
            self.c14_fault("r", ev)
            try:
                return self._read()
            except Starved:
                if self.c14_block:
                    time.sleep(self.c14_block)
                raise
        except BaseException as e:
            ev["raised"] = type(e).__name__
            raise

    def write(self, channel_input):
        ev = self.c14_conn.io_event("w")
        try:
            self.c14_fault("w", ev)
            self._write(channel_input)
        except BaseException as e:
            ev["raised"] = type(e).__name__
            raise


class C14AsyncTransport(_C14Mixin, AsyncScriptedTransport):
    async def open(self):
        self.opened = True
        self.session_timeout = self._base_transport_args.timeout_transport

    async def read(self):
        ev = self.c14_conn.io_event("r")
        try:
            self.c14_fault("r", ev)
            try:
                return self._read()
            except Starved:
                if self.c14_block:
                    await asyncio.sleep(self.c14_block)
                raise
        except BaseException as e:
            ev["raised"] = type(e).__name__
            raise

    def write(self, channel_input):
        ev = self.c14_conn.io_event("w")
        try:
            self.c14_fault("w", ev)
            self._write(channel_input)
        except BaseException as e:
            ev["raised"] = type(e).__name__
            raise


class C14SessTransport(_SessMixin, C14Transport):
    pass


class C14AsyncSessTransport(_SessMixin, C14AsyncTransport):
    pass


# ------------------------------------------------------------------------------------------------
# values
# ------------------------------------------------------------------------------------------------
def val(ms, as_int=False):
    """python number for a value given in milliseconds"""
    if as_int and ms % 1000 == 0:
        return ms // 1000
    return ms / 1000.0


def ms_of(v):
    """milliseconds of a python number (None when it has no integer representation)"""
    if isinstance(v, bool) or not isinstance(v, (int, float)):
        return None
    if isinstance(v, float) and not math.isfinite(v):
        return None
    return int(round(v * 1000))


def same_value(a, b):
    if isinstance(a, float) and isinstance(b, float) and math.isnan(a) and math.isnan(b):
        return True
    return type(a) in (int, float) and type(b) in (int, float) and a == b


BAD_VALUES = {"str": "10", "list": [5], "nan": float("nan"), "inf": float("inf"), "dict": {}}


# degenerate arguments of a call: what is passed in place of the command(s) / config(s) / file (given the scenario's
# list of commands).  An EMPTY batch is not listed here: it is "cmds": [] (no command, empty config string, file without a line).
DEGENERATE_VALUES = {
    "str": lambda cmds: "\n".join(cmds) or "show version",     # one string where a list is expected (and the reverse:)
    "list": lambda cmds: list(cmds) or ["show version"],        # a list where one string / a path is expected
    "tuple": lambda cmds: tuple(cmds),
    "none": lambda cmds: None,
    "int": lambda cmds: 7,
}
# which of them is the WRONG type for which operation (the others would be ordinary calls)
DEGENERATE_FOR = {
    "send_command": ["list", "none", "int"], "send_and_read": ["list", "none", "int"], "send_interactive": ["str", "none", "int"],
    "send_commands": ["str", "tuple", "none", "int"], "send_configs": ["str", "tuple", "none", "int"],
    "send_config": ["list", "tuple", "none", "int"],
    "send_commands_from_file": ["list", "none", "int", "nofile"], "send_configs_from_file": ["list", "none", "int", "nofile"],
}
PLURAL = ("send_commands", "send_commands_from_file", "send_config", "send_configs", "send_configs_from_file")
# expected outputs of send_and_read that are literal device text but no regular expression (the joined pattern of the
# expected outputs does not compile: unbalanced '[' / '(', leading '*', dangling '\\', bad repeat, bad range)
BAD_REGEX = ["[confirm", "(y/n", "*** done", "done? \\", "a{2}{3}", "[z-a]"]


def uncompilable(expected):
    """the expected outputs of a send_and_read do not make a regular expression (decided with `re`, not with the library)"""
    if not expected:
        return False
    try:
        re.compile("|".join("(" + x + ")" for x in expected).encode(), flags=re.I | re.M)
        return False
    except re.error:
        return True


def ov_value(ov):
    if ov is None:
        return None
    if "bad" in ov:
        return BAD_VALUES[ov["bad"]]
    return val(ov["ms"], ov.get("int", False))


def z(n):
    return "(%d)" % n


def ov_term(ov):
    if ov is None:
        return "OvNone"
    if "bad" in ov:
        return "OvBad" if ov["bad"] in ("str", "list", "dict") else None
    return "(OvVal %s)" % z(ov["ms"])


EXC_MAP = {"ScrapliTimeout": "ETimeout", "ScrapliConnectionError": "EConn", "ScrapliConnectionNotOpened": "ENotOpened",
           "ScrapliPrivilegeError": "EPriv", "CallbackBoom": "ECallback", "ScrapliTypeError": "EType",
           "KeyboardInterrupt": "EInterrupt", "CancelledError": "EInterrupt"}


def exc_term(name):
    return EXC_MAP.get(name, "EOther")


def outcome_term(out):
    if out in ("Ok", "FailedCommand", "Blocks"):
        return out
    return "(Raised %s)" % exc_term(out)


PHASES = {"io": "PhIo", "timed": "PhTimed", "acq": "PhAcq", "cb": "PhCb"}


def run_sync(coro):
    """drive a coroutine that never really suspends (sync stack)"""
    try:
        coro.send(None)
    except StopIteration as e:
        return e.value
    coro.close()
    raise RuntimeError("sync call suspended")


# ------------------------------------------------------------------------------------------------
# one real connection over the simulated device
# ------------------------------------------------------------------------------------------------
HOST = "router1"


def device_outputs(mode, line):
    if line.startswith("show bad") or line.startswith("bad "):
        return b"% Invalid input detected at '^' marker."
    if line.startswith("show tok"):
        return ("first line\nmarker " + line.split()[1] + " seen\nlast line").encode()
    if line.startswith("show"):
        return b"line one\nline two tokx\nline three"
    return b""


class Conn:
    def __init__(self, scen):
        self.scen = scen
        self.stack = scen["stack"]
        self.kind = scen["kind"]
        self.has_set = scen["has_set"]
        platform = "generic" if self.kind == "generic" else "cisco_iosxe"
        refuse = [tuple(x) for x in scen.get("refuse", [])]
        self.dev = SimDevice(platform, host=HOST, outputs=device_outputs, refuse=refuse)
        self.dev.start()
        kw = dict(timeout_ops=val(scen["base_ops"], scen.get("base_int", False)),
                  timeout_transport=val(scen["base_tr"], scen.get("base_int", False)))
        self.d = make_driver(self.kind, self.stack, self.dev, tuple(scen["policy"]), **kw)
        if self.stack == "sync":
            tcls = C14SessTransport if self.has_set else C14Transport
        else:
            tcls = C14AsyncSessTransport if self.has_set else C14AsyncTransport
        t = tcls(self.dev, tuple(scen["policy"]), None, base_transport_args=self.d._base_transport_args)
        t.c14_init(self, block=scen.get("block", 0.0))
        self.t = t
        self.d.transport = t
        self.d.channel.transport = t
        self.loop = asyncio.new_event_loop() if self.stack != "sync" else None
        self.events = []
        self.phase = ["io"]
        self.depth = 0
        self.ctx = []
        self._instrument()
        self.run(self._maybe(self.d.open()))

    # -- running ---------------------------------------------------------------------------------
    def run(self, coro):
        if self.stack == "sync":
            return run_sync(coro)
        return self.loop.run_until_complete(coro)

    async def _maybe(self, x):
        if asyncio.iscoroutine(x) or isinstance(x, asyncio.Future):
            return await x
        return x

    def close(self):
        if self.loop is not None:
            self.loop.close()
            self.loop = None

    # -- observation -----------------------------------------------------------------------------
    def state(self):
        return (self.d.timeout_ops, self.d.timeout_transport, self.t.session_timeout if self.has_set else 0)

    def io_event(self, kind):
        ev = {"t": "io", "phase": self.phase[-1], "kind": kind, "depth": self.depth, "state": self.state(), "raised": None}
        self.events.append(ev)
        return ev

    def mark(self, what, **kw):
        ev = {"t": what, "phase": "cb", "depth": self.depth, "state": self.state()}
        ev.update(kw)
        self.events.append(ev)
        return ev

    def _instrument(self):
        conn = self

        def wrap(obj, name, phase, key):
            orig = getattr(obj, name)

            def enter():
                rec = {"e0": len(conn.events), "exc": None, "ret": None}
                if conn.ctx:
                    conn.ctx[-1].setdefault(key, []).append(rec)
                if phase:
                    conn.phase.append(phase)
                return rec

            def leave(rec):
                if phase:
                    conn.phase.pop()
                rec["e1"] = len(conn.events)

            if asyncio.iscoroutinefunction(orig):
                async def w(*a, **k):
                    rec = enter()
                    try:
                        rec["ret"] = await orig(*a, **k)
                        return rec["ret"]
                    except BaseException as e:
                        rec["exc"] = e
                        raise
                    finally:
                        leave(rec)
            else:
                def w(*a, **k):
                    rec = enter()
                    try:
                        rec["ret"] = orig(*a, **k)
                        return rec["ret"]
                    except BaseException as e:
                        rec["exc"] = e
                        raise
                    finally:
                        leave(rec)
            setattr(obj, name, w)

        wrap(self.d, "_send_command", None, "sc")
        wrap(self.d.channel, "_read_until_prompt_or_time", "timed", "timed")
        if hasattr(self.d, "acquire_priv"):
            wrap(self.d, "acquire_priv", "acq", "acq")

    # -- between calls ---------------------------------------------------------------------------
    def heal(self, how):
        if how in ("reopen", "reopen_drain"):
            self.dev.closed = False
            self.t.opened = True
            if self.has_set:
                self.t.session_timeout = self.d.timeout_transport
        if how in ("drain", "reopen_drain"):
            self.t.delivered = len(self.dev.out)

    # -- one call --------------------------------------------------------------------------------
    def io_in(self, e0, e1, depth, phases=None):
        return [e for e in self.events[e0:e1] if e["t"] == "io" and e["depth"] == depth
                and (phases is None or e["phase"] in phases)]

    async def call_op(self, spec, faults=None):
        """run one operation; returns the record (model term, observations, outcome)"""
        d = self.d
        top = self.depth == 0
        self.depth += 1
        depth = self.depth
        ctx = {}
        nctx, nphase = len(self.ctx), len(self.phase)
        self.ctx.append(ctx)
        self.phase.append("io")
        if top:
            self.t.c14_plan = {}
            for k, v in (faults or {}).items():
                self.t.c14_plan[(k[0], int(k[1:]))] = v
            self.t.c14_n = {"r": 0, "w": 0}
        before = self.state()
        closed0 = not self.t.opened
        e0 = len(self.events)
        ret, exc = None, None
        try:
            ret = await self._maybe(self._invoke(spec, ctx))
        except BaseException as e:  # noqa: every way a call can end, Starved and KeyboardInterrupt included
            exc = e
        finally:
            # not pop(): a timer signal may have cut one of the recording wrappers short
            del self.phase[nphase:]
            del self.ctx[nctx:]
            self.depth = depth - 1
        e1 = len(self.events)
        after = self.state()
        if exc is None:
            failed = bool(getattr(ret, "failed", False))
            out = "FailedCommand" if failed else "Ok"
        elif isinstance(exc, Starved):
            out = "Blocks"
        else:
            out = type(exc).__name__
        rec = {"spec": spec, "before": before, "after": after, "outcome": out, "closed_before": closed0,
               "closed_after": not self.t.opened, "exc": exc,
               "trace": [(e["phase"], e["state"]) for e in self.events[e0:e1] if e["depth"] >= depth]}
        rec["not_applied"] = self._applied(spec, ctx, e0, e1, depth, before)
        try:
            rec["term"] = self._term(spec, ctx, e0, e1, depth, ret, exc, closed0)
        except Unmodelled as u:
            rec["term"] = None
            rec["unmodelled"] = str(u)
        return rec

    def _applied(self, spec, ctx, e0, e1, depth, before):
        """the other half of the statement, decided on the observations alone: while the call does its own
        I/O the value passed for this call is the one in effect"""
        bad = []
        op = spec["op"]
        own_io = self.io_in(e0, e1, depth)
        ov = spec.get("ov")
        if ov is not None and "ms" in ov:
            want = ov_value(ov)
            if op == "send_interactive":
                evs = [e for e in own_io if e["phase"] == "io"]
            elif op == "send_and_read":
                evs = [e for e in own_io if e["phase"] in ("io", "timed")]
            else:
                evs = []
                for r in ctx.get("sc", []):
                    evs += self.io_in(r["e0"], r.get("e1", e1), depth)
            wrong = [e["state"][0] for e in evs if not same_value(e["state"][0], want)]
            if wrong:
                bad.append("timeout_ops=%r was passed but %r was in effect during the call's I/O" % (want, wrong[0]))
        if op == "send_and_read":
            rd = spec.get("rd", 2500)
            if not isinstance(rd, dict):
                want = int(val(2500 if rd is None else rd))
                wrong = [e["state"][1] for e in own_io if e["phase"] == "timed" and not same_value(e["state"][1], want)]
                if wrong:
                    bad.append("read_duration %r: timeout_transport %r during the timed read (expected %r)" % (rd, wrong[0], want))
        if op == "read_callback":
            rt = spec.get("rt", -1000)
            if not isinstance(rt, dict):
                want = val(rt, spec.get("rt_int", False)) if rt >= 0 else before[1]
                for e in self.events[e0:e1]:
                    if e["depth"] != depth:
                        continue
                    if e["t"] == "cb_start":
                        break
                    if e["t"] == "io" and e["kind"] == "r" and not same_value(e["state"][1], want):
                        bad.append("read_timeout %r: timeout_transport %r during the read (expected %r)" % (rt, e["state"][1], want))
                        break
        return bad

    def _file_arg(self, spec, stem):
        """the file of a *_from_file call: its lines are the commands (no line at all for an empty batch); degenerate
        arguments: a path that does not exist, something that is not a path"""
        arg = spec.get("arg")
        if arg == "nofile":
            return os.path.join(common.BUILD, "C14", "no_such_dir_%d" % os.getpid(), "nothing.txt")
        if arg is not None:
            return DEGENERATE_VALUES[arg](spec["cmds"])
        path = os.path.join(common.BUILD, "C14", "%s_%d.txt" % (stem, os.getpid()))
        os.makedirs(os.path.dirname(path), exist_ok=True)
        with open(path, "w") as f:
            f.write("".join(c + "\n" for c in spec["cmds"]))
        return path

    def _invoke(self, spec, ctx):
        d = self.d
        op = spec["op"]
        arg = spec.get("arg")
        kw = {}
        if "ov" in spec and spec["ov"] is not None:
            kw["timeout_ops"] = ov_value(spec["ov"])
        if self.kind == "generic" and op != "read_callback":
            kw["failed_when_contains"] = ["% Invalid input"]
        if op == "send_command":
            return d.send_command(spec["cmd"] if arg is None else DEGENERATE_VALUES[arg]([spec["cmd"]]), **kw)
        if op == "send_commands":
            cmds = list(spec["cmds"]) if arg is None else DEGENERATE_VALUES[arg](spec["cmds"])
            return d.send_commands(cmds, stop_on_failed=spec.get("stop", False), **kw)
        if op == "send_commands_from_file":
            return d.send_commands_from_file(self._file_arg(spec, "cmds"), stop_on_failed=spec.get("stop", False), **kw)
        if op == "send_interactive":
            if spec.get("priv"):
                kw["privilege_level"] = spec["priv"]
            events = [(spec["cmd"], "^" + HOST + r"\S*[#>]\s*$")]
            return d.send_interactive(events if arg is None else DEGENERATE_VALUES[arg]([spec["cmd"]]), **kw)
        if op == "send_and_read":
            if "rd" in spec:
                rd = spec["rd"]
                kw["read_duration"] = BAD_VALUES[rd["bad"]] if isinstance(rd, dict) else (None if rd is None else val(rd))
            if spec.get("expected"):
                kw["expected_outputs"] = list(spec["expected"])
            if spec.get("via") == "channel":
                # the channel's own method (no timeout_ops, no Response): what the driver's send_and_read calls
                kw.pop("timeout_ops", None)
                kw.pop("failed_when_contains", None)
                return d.channel.send_input_and_read(spec["cmd"], **kw)
            return d.send_and_read(spec["cmd"] if arg is None else DEGENERATE_VALUES[arg]([spec["cmd"]]), **kw)
        if op in ("send_config", "send_configs", "send_configs_from_file"):
            if spec.get("priv"):
                kw["privilege_level"] = spec["priv"]
            if op == "send_config":
                cfg = "\n".join(spec["cmds"]) if arg is None else DEGENERATE_VALUES[arg](spec["cmds"])
                return d.send_config(cfg, stop_on_failed=spec.get("stop", False), **kw)
            if op == "send_configs":
                cfgs = list(spec["cmds"]) if arg is None else DEGENERATE_VALUES[arg](spec["cmds"])
                return d.send_configs(cfgs, stop_on_failed=spec.get("stop", False), **kw)
            return d.send_configs_from_file(self._file_arg(spec, "cfgs"), stop_on_failed=spec.get("stop", False), **kw)
        if op == "read_callback":
            return self._read_callback(spec, ctx)
        raise ValueError(op)

    def _read_callback(self, spec, ctx):
        from scrapli.driver.generic.base_driver import ReadCallback
        conn = self
        ctx["cbs"] = []
        cbs = []
        for i, sg in enumerate(spec["stages"]):
            async def body(i=i, sg=sg):
                rec = {"i": i, "nested": [], "exc": None}
                ctx["cbs"].append(rec)
                conn.mark("cb_start", i=i, closed=not conn.t.opened)
                conn.phase.append("cb")
                try:
                    last_exc = None
                    for nspec in sg.get("nested", []):
                        r = await conn.call_op(nspec)
                        rec["nested"].append(r)
                        if r["exc"] is not None:
                            last_exc = r["exc"]
                    if sg.get("close"):
                        conn.t.opened = False
                    if sg.get("next_cmd") is not None:
                        conn.d.channel.write(sg["next_cmd"] + "\n")
                    if sg.get("raise") == "boom":
                        raise CallbackBoom("callback failed")
                    if sg.get("raise") == "propagate" and last_exc is not None and not isinstance(last_exc, Starved):
                        raise last_exc
                except BaseException as e:
                    rec["exc"] = e
                    raise
                finally:
                    conn.phase.pop()
                    conn.mark("cb_end", i=i, closed=not conn.t.opened)

            if self.stack == "sync":
                def fn(drv, out, body=body):
                    return run_sync(body())
            else:
                async def fn(drv, out, body=body):
                    return await body()
            fn.__name__ = "cb%d" % i
            kw = dict(callback=fn, complete=bool(sg.get("complete")), next_delay=0.001, only_once=True,
                      next_timeout=val(sg.get("next_timeout", -1000)))
            if sg.get("contains_re") is not None:
                kw["contains_re"] = sg["contains_re"]
            else:
                kw["contains"] = sg["token"]
            cbs.append(ReadCallback(**kw))
        kw = dict(callbacks=cbs, initial_input=spec.get("initial"), read_delay=0.001)
        if "rt" in spec:
            rt = spec["rt"]
            kw["read_timeout"] = BAD_VALUES[rt["bad"]] if isinstance(rt, dict) else val(rt, spec.get("rt_int", False))
        return self.d.read_callback(**kw)

    # -- the model term of what happened ---------------------------------------------------------
    def _term(self, spec, ctx, e0, e1, depth, ret, exc, closed0):
        op = spec["op"]
        ename = None if exc is None else type(exc).__name__
        starved = isinstance(exc, Starved)
        own_io = self.io_in(e0, e1, depth)
        body_io = [e for e in own_io if e["phase"] != "acq"]

        def bres_of(rec):
            io = bool(self.io_in(rec["e0"], rec["e1"], depth))
            if rec["exc"] is None:
                return "BFailed" if getattr(rec["ret"], "failed", False) else "BOk"
            if isinstance(rec["exc"], Starved):
                return "BBlocks"
            return "(%s %s)" % ("BExc" if io else "BPre", exc_term(type(rec["exc"]).__name__))

        def need(t):
            if t is None:
                raise Unmodelled("value outside the model's domain")
            return t

        inner, pre_exc = None, None
        if op in ("send_command", "send_commands", "send_commands_from_file", "send_config", "send_configs",
                  "send_configs_from_file"):
            o = need(ov_term(spec.get("ov")))
            recs = ctx.get("sc", [])
            rs = [bres_of(r) for r in recs]
            if exc is not None and not (recs and recs[-1]["exc"] is not None):
                # raised outside every _send_command (argument checks, privilege handling)
                acq_raised = bool(ctx.get("acq")) and ctx["acq"][-1]["exc"] is not None
                if acq_raised:
                    pass
                elif not recs and not body_io:
                    # an argument check of the public method: no decorated call was entered (so no override was applied), no
                    # I/O of the call's own (the privilege level may have been acquired before it, with I/O)
                    pre_exc = exc_term(ename)
                else:
                    raise Unmodelled("exception outside _send_command after I/O")
            if op == "send_command":
                inner = "(OSendCommand %s %s)" % (o, rs[0] if rs else "BOk")
            else:
                inner = "(OSendCommands %s %s %s)" % (o, common.coq_bool(spec.get("stop", False)), common.coq_list(rs))
            if pre_exc is not None:
                inner = "(ONet (PNoIo %s) %s)" % (pre_exc, inner)
        elif op == "send_interactive":
            o = need(ov_term(spec.get("ov")))
            if exc is None:
                r = "BFailed" if getattr(ret, "failed", False) else "BOk"
            elif starved:
                r = "BBlocks"
            else:
                r = "(%s %s)" % ("BExc" if body_io else "BPre", exc_term(ename))
            inner = "(OSendInteractive %s %s)" % (o, r)
        elif op == "send_and_read":
            o = need(ov_term(spec.get("ov")))
            rd = spec.get("rd", 2500)
            if isinstance(rd, dict):
                raise Unmodelled("read_duration is not a number")
            rd = 2500 if rd is None else rd
            trecs = ctx.get("timed", [])
            evs, end, p = [], "EndDone", "PIoOk"
            if trecs:
                tr_ = trecs[0]
                tio = self.io_in(tr_["e0"], tr_["e1"], depth, ("timed",))
                if tr_["exc"] is None:
                    if exc is not None:
                        raise Unmodelled("exception after the timed read")
                    evs = ["RTimeout" if e["raised"] else "RData" for e in tio]
                elif not tio and not starved and own_io and isinstance(exc, re.error) and uncompilable(spec.get("expected")):
                    # the expected outputs are no regular expression: the timed read is entered and left before its first
                    # read; in the model that is "some I/O (input written, echo read), then the exception" - the swap of
                    # timeout_transport has not happened (the oracle below decides that on the observed values)
                    p = "(PIo %s)" % exc_term(ename)
                else:
                    evs = ["RTimeout" if e["raised"] else "RData" for e in tio[:-1]]
                    if not tio or tio[-1]["raised"] is None:
                        raise Unmodelled("timed read left by an exception that no read raised")
                    end = "EndBlocks" if starved else "(EndExc %s)" % exc_term(ename)
            elif exc is not None:
                if starved:
                    raise Unmodelled("starved before the timed read")
                p = "(%s %s)" % ("PIo" if own_io else "PNoIo", exc_term(ename))
            else:
                raise Unmodelled("no timed read")
            inner = "(OSendAndRead %s %s %s %s %s %s)" % (o, z(rd), p, common.coq_list(evs), end,
                                                          common.coq_bool(bool(getattr(ret, "failed", False))))
        elif op == "read_callback":
            return self._term_read_callback(spec, ctx, e0, e1, depth, exc, closed0)
        else:
            raise Unmodelled(op)
        if self.kind != "generic" and op != "send_and_read":
            arecs = ctx.get("acq", [])
            acq = "PNone"
            if arecs:
                a = arecs[-1]
                aio = bool(self.io_in(a["e0"], a["e1"], depth))
                if a["exc"] is not None:
                    acq = "(%s %s)" % ("PIo" if aio else "PNoIo", exc_term(type(a["exc"]).__name__))
                elif aio:
                    acq = "PIoOk"
            elif exc is not None and not ctx.get("sc") and not own_io and pre_exc is None:
                acq = "(PNoIo %s)" % exc_term(ename)
            inner = "(ONet %s %s)" % (acq, inner)
        return inner

    def _term_read_callback(self, spec, ctx, e0, e1, depth, exc, closed0):
        rt = spec.get("rt", -1000)
        if isinstance(rt, dict):
            raise Unmodelled("read_timeout is not a number")
        own = [e for e in self.events[e0:e1] if e["depth"] == depth]
        init = "PNone"
        i = 0
        if spec.get("initial") is not None:
            if not own or own[0]["t"] != "io" or own[0]["kind"] != "w":
                raise Unmodelled("no initial write")
            if own[0]["raised"]:
                return "(OReadCallback (PIo %s) %s [])" % (exc_term(type(exc).__name__), z(rt))
            init = "PIoOk"
            i = 1
        cbrecs = {r["i"]: r for r in ctx.get("cbs", [])}
        stages = []
        cur = {"closed": closed0, "reads": 0, "raised": None}
        matched = None
        for e in own[i:]:
            if e["t"] == "io" and e["phase"] == "io":
                if e["raised"] is None:
                    cur["reads"] += 1
                else:
                    cur["raised"] = e["raised"]
            elif e["t"] == "cb_start":
                matched = e["i"]
                cur["closed_end"] = e["closed"]
            elif e["t"] == "cb_end":
                sg = spec["stages"][matched]
                r = cbrecs[matched]
                nested = []
                for n in r["nested"]:
                    if n["term"] is None:
                        raise Unmodelled("nested: " + n.get("unmodelled", "?"))
                    nested.append(n["term"])
                raise_ = "None" if r["exc"] is None else "(Some %s)" % exc_term(type(r["exc"]).__name__)
                stages.append("(mkstage %s %s %d (SMatch (cb_of_ops cfg0 %s %s) %s %s))" % (
                    common.coq_bool(cur["closed"]), common.coq_bool(cur["closed_end"]), cur["reads"], common.coq_list(nested), raise_,
                    common.coq_bool(bool(sg.get("complete"))), z(sg.get("next_timeout", -1000))))
                cur = {"closed": e["closed"], "reads": 0, "raised": None}
                matched = None
        last_cb_raised = bool(ctx.get("cbs")) and ctx["cbs"][-1]["exc"] is not None and own and own[-1]["t"] == "cb_end"
        if exc is not None and not last_cb_raised:
            if isinstance(exc, Starved):
                end = "SBlocks"
            else:
                end = "(SExc %s)" % exc_term(cur["raised"] or type(exc).__name__)
            stages.append("(mkstage %s %s %d %s)" % (common.coq_bool(cur["closed"]), common.coq_bool(not self.t.opened), cur["reads"], end))
        return "(OReadCallback %s %s %s)" % (init, z(rt), common.coq_list(stages))


class Unmodelled(Exception):
    pass


# ------------------------------------------------------------------------------------------------
# canonical observations, property oracle
# ------------------------------------------------------------------------------------------------
def dedup(seq):
    out = []
    for x in seq:
        if not out or out[-1] != x:
            out.append(x)
    return out


def state_ms(s):
    return tuple(ms_of(x) for x in s)


def oracle(rec):
    """the property itself, on the real connection: a call that ended left all three values as they were.
    A call that never ends (Starved stands for a read that blocks for ever) is outside the statement."""
    if rec["outcome"] == "Blocks":
        return None
    b, a = rec["before"], rec["after"]
    bad = list(rec.get("not_applied", []))
    if not same_value(b[0], a[0]):
        bad.append("timeout_ops %r -> %r" % (b[0], a[0]))
    if not same_value(b[1], a[1]):
        bad.append("timeout_transport %r -> %r" % (b[1], a[1]))
    if not rec["closed_before"] and not rec["closed_after"] and not same_value(b[2], a[2]):
        bad.append("session timeout %r -> %r" % (b[2], a[2]))
    return bad or None


def signature(rec):
    """input class of a failure: operation, which value, how the call ended"""
    a, b = rec["after"], rec["before"]
    which = "ops" if not same_value(a[0], b[0]) else ("transport" if not same_value(a[1], b[1]) else (
        "session" if not same_value(a[2], b[2]) else "not-applied"))
    return "c14:%s:%s:%s" % (rec["spec"]["op"], which, rec["outcome"])


def case_term(conn, rec):
    """Coq term of one correspondence case, or None when a value has no model counterpart"""
    if rec["term"] is None:
        return None
    b, a = state_ms(rec["before"]), state_ms(rec["after"])
    if None in b or None in a:
        return None
    seen = []
    for ph, st in dedup([(ph, state_ms(st)) for ph, st in rec["trace"]]):
        if None in st:
            return None
        seen.append("(%s, (%s, %s, %s))" % (PHASES[ph], z(st[0]), z(st[1]), z(st[2])))
    return "(mkcfg true %s, (%s, %s, %s), %s, (%s, %s, %s), %s, %s)" % (
        common.coq_bool(conn.has_set), z(b[0]), z(b[1]), z(b[2]), rec["term"].replace("cfg0", "(mkcfg true %s)" % common.coq_bool(conn.has_set)),
        z(a[0]), z(a[1]), z(a[2]), outcome_term(rec["outcome"]), common.coq_list(seen))


HEADER = """From Verif Require Import TimeoutRestore TimeoutOverlap.
Definition chk (k : (_ + _) + _) : bool :=
  match k with inl (inl a) => check_case a | inl (inr b) => check_pool_case b | inr c => check_overlap_case c end.
"""


# ------------------------------------------------------------------------------------------------
# generators
# ------------------------------------------------------------------------------------------------
BASES = [30000, 10000, 12500, 45250, 0, 90000]
OV_MS = [0, 5000, 7500, 12250, 5001, 60000, 600000, 9999]
RD_MS = [2500, 0, 1000, 2999, 500, 3000, 10750]
RT_MS = [-1000, 0, 3000, 3500, 250, 8000, -500]
FAULTS = ["timeout", "conn", "lost", "closed", "other", "interrupt"]
SHOW = ["show version", "show tok1", "show tok2", "show ip route", "show bad thing"]
CFGS = ["interface loopback0", "description x", "bad config line", "no shutdown"]


def gen_ov(rng, base_ops, malformed=False):
    r = rng.random()
    if malformed and r < 0.5:
        return {"bad": rng.choice(["str", "list", "nan", "inf", "dict"])}
    if malformed:
        return {"ms": rng.choice([-1000, -1, 1])} if r < 0.75 else {"ms": rng.choice(OV_MS)}
    if r < 0.15:
        return None
    if r < 0.32:
        return {"ms": base_ops, "int": rng.random() < 0.5}        # equal to current
    if r < 0.45:
        return {"ms": 0, "int": rng.random() < 0.5}
    return {"ms": rng.choice(OV_MS), "int": rng.random() < 0.3}


def make_degenerate(rng, spec):
    """turn a generated call into one with a degenerate argument, its timeout override kept: an empty batch (no command,
    empty config string, file without a line) or a value of the wrong type / a file that is not there"""
    op = spec["op"]
    if op in PLURAL and rng.random() < 0.5:
        spec["cmds"] = []
    elif op == "send_and_read" and rng.random() < 0.5:
        # expected outputs that are no regular expression (alone, or beside one that is)
        spec["expected"] = [rng.choice(BAD_REGEX)] + (["marker"] if rng.random() < 0.3 else [])
        rng.shuffle(spec["expected"])
        if rng.random() < 0.25:
            spec["via"] = "channel"
            spec["ov"] = None
    else:
        spec["arg"] = rng.choice(DEGENERATE_FOR[op])
    return spec


def gen_simple_op(rng, scen, malformed=False, allow_rc=True, degen=0.0):
    net = scen["kind"] != "generic"
    kinds = ["send_command", "send_commands", "send_commands_from_file", "send_interactive", "send_and_read", "send_and_read"]
    if net:
        kinds += ["send_config", "send_configs", "send_configs_from_file"]
    if allow_rc:
        kinds += ["read_callback", "read_callback"]
    op = rng.choice(kinds)
    spec = {"op": op}
    if op != "read_callback":
        spec["ov"] = gen_ov(rng, scen["base_ops"], malformed)
    if op in ("send_command", "send_interactive", "send_and_read"):
        spec["cmd"] = rng.choice(SHOW)
    if op == "send_interactive" and net and rng.random() < 0.3:
        spec["priv"] = rng.choice(["privilege_exec", "configuration", "nosuchlevel"])
    if op in ("send_commands", "send_commands_from_file"):
        spec["cmds"] = [rng.choice(SHOW) for _ in range(rng.randint(1, 3))]
        spec["stop"] = rng.random() < 0.5
    if op in ("send_config", "send_configs", "send_configs_from_file"):
        spec["cmds"] = [rng.choice(CFGS) for _ in range(rng.randint(1, 3))]
        spec["stop"] = rng.random() < 0.5
        if rng.random() < 0.1:
            spec["priv"] = "nosuchlevel"
    if op == "send_and_read":
        r = rng.random()
        if malformed and r < 0.4:
            spec["rd"] = {"bad": rng.choice(["str", "list", "nan", "inf"])}
        elif r < 0.2:
            pass                                   # default 2.5
        elif r < 0.3:
            spec["rd"] = None
        elif r < 0.4:
            spec["rd"] = scen["base_tr"]
        else:
            spec["rd"] = rng.choice(RD_MS)
        if rng.random() < 0.3:
            spec["expected"] = [rng.choice(["tokx", "marker", "nomatch"])]
    if op == "read_callback":
        n = rng.choice([1, 1, 2, 2, 3])
        spec["initial"] = "show tok0" if rng.random() < 0.85 else None
        r = rng.random()
        if malformed and r < 0.3:
            spec["rt"] = {"bad": rng.choice(["str", "list", "nan", "inf"])}
        elif r < 0.15:
            pass
        elif r < 0.3:
            spec["rt"] = scen["base_tr"]
            spec["rt_int"] = rng.random() < 0.5
        else:
            spec["rt"] = rng.choice(RT_MS)
        stages = []
        for i in range(n):
            sg = {"token": "marker tok%d" % i, "complete": i == n - 1, "next_timeout": rng.choice(RT_MS)}
            if i < n - 1:
                sg["next_cmd"] = "show tok%d" % (i + 1)
            if rng.random() < 0.5:
                sg["nested"] = [gen_simple_op(rng, scen, malformed and rng.random() < 0.3, allow_rc=False, degen=degen)
                                for _ in range(rng.randint(1, 2))]
            r = rng.random()
            if r < 0.12:
                sg["raise"] = "boom"
            elif r < 0.3:
                sg["raise"] = "propagate"
            if rng.random() < 0.06:
                sg["close"] = True
            if malformed and rng.random() < 0.15:
                sg["contains_re"] = "(unbalanced"
            stages.append(sg)
        if spec["initial"] is None:
            # nothing to read unless something is pending: make the first callback match the prompt residue
            stages[0]["token"] = HOST
        spec["stages"] = stages
    if degen and op != "read_callback" and rng.random() < degen:
        if spec.get("ov") is None or rng.random() < 0.8:
            # what such a call must not leave behind: give it an override that differs from the configured value
            spec["ov"] = {"ms": rng.choice([x for x in OV_MS if x != scen["base_ops"]]), "int": rng.random() < 0.3}
        make_degenerate(rng, spec)
    return spec


def gen_faults(rng, p=0.45):
    if rng.random() > p:
        return {}
    f = {}
    for _ in range(rng.choice([1, 1, 1, 2])):
        kind = rng.choice(FAULTS)
        if rng.random() < 0.8:
            f["r%d" % rng.choice([0, 0, 1, 1, 2, 3, 4, 6, 9, 14])] = kind
        else:
            f["w%d" % rng.choice([0, 1, 2, 3])] = kind
    return f


def gen_scenario(rng, ncalls, malformed=False, degen=0.0):
    scen = {"stack": rng.choice(["sync", "async"]), "kind": rng.choice(["generic", "generic", "cisco_iosxe", "cisco_iosxe", "network"]),
            "has_set": rng.random() < 0.4, "base_ops": rng.choice(BASES), "base_tr": rng.choice(BASES),
            "base_int": rng.random() < 0.3,
            "policy": rng.choice([["whole"], ["whole"], ["bytes", 8], ["bytes", 23], ["random", rng.randint(0, 10 ** 6), 12]])}
    if scen["kind"] != "generic" and rng.random() < 0.25:
        scen["refuse"] = [["privilege_exec", "configure terminal"]]
    calls = []
    for _ in range(ncalls):
        c = {"spec": gen_simple_op(rng, scen, malformed, degen=degen), "faults": gen_faults(rng)}
        c["heal"] = rng.choice(["reopen_drain", "reopen_drain", "reopen_drain", "drain", "none"])
        calls.append(c)
    scen["calls"] = calls
    return scen


def enumerate_single(thorough):
    """every operation x override class x place/kind of fault, one call each (deterministic)"""
    out = []
    ovs = [None, {"ms": 30000}, {"ms": 30000, "int": True}, {"ms": 0}, {"ms": 7500}, {"bad": "str"}]
    specs = []
    for ov in ovs:
        specs += [{"op": "send_command", "ov": ov, "cmd": "show version"},
                  {"op": "send_command", "ov": ov, "cmd": "show bad"},
                  {"op": "send_commands", "ov": ov, "cmds": ["show version", "show bad", "show tok1"], "stop": True},
                  {"op": "send_commands", "ov": ov, "cmds": ["show version", "show tok1"], "stop": False},
                  {"op": "send_interactive", "ov": ov, "cmd": "show version"},
                  {"op": "send_configs", "ov": ov, "cmds": ["interface loopback0", "description x"], "stop": False},
                  {"op": "send_config", "ov": ov, "cmds": ["bad config line", "description x"], "stop": True}]
        for rd in ([2500, 0, 30000, 2999] if thorough else [2500, 0]):
            specs.append({"op": "send_and_read", "ov": ov, "cmd": "show version", "rd": rd})
    for rt in [-1000, 0, 3000, 3500, 30000]:
        specs.append({"op": "read_callback", "initial": "show tok0", "rt": rt,
                      "stages": [{"token": "marker tok0", "complete": True}]})
        specs.append({"op": "read_callback", "initial": "show tok0", "rt": rt,
                      "stages": [{"token": "marker tok0", "next_cmd": "show tok1", "next_timeout": 4250,
                                  "nested": [{"op": "send_command", "ov": {"ms": 7500}, "cmd": "show version"}]},
                                 {"token": "marker tok1", "complete": True, "raise": "boom"}]})
    fault_sets = [{}]
    for kind in FAULTS:
        for pos in (["r0", "r1", "r2", "r4", "w0", "w1"] if thorough else ["r0", "r2", "w1"]):
            fault_sets.append({pos: kind})
    for stack in ("sync", "async"):
        for kind in ("generic", "cisco_iosxe"):
            for has_set in (False, True):
                for spec in specs:
                    if kind == "generic" and spec["op"] in ("send_config", "send_configs"):
                        continue
                    for fs in fault_sets:
                        out.append({"stack": stack, "kind": kind, "has_set": has_set, "base_ops": 30000, "base_tr": 30000,
                                    "policy": ["bytes", 16], "calls": [{"spec": spec, "faults": fs, "heal": "none"}]})
    # the same calls on a connection whose transport was closed by the call before
    closer = {"spec": {"op": "send_command", "ov": None, "cmd": "show version"}, "faults": {"r0": "closed"}, "heal": "none"}
    after = [{"op": "read_callback", "initial": None, "rt": 3000, "stages": [{"token": HOST, "complete": True}]},
             {"op": "read_callback", "initial": None, "rt": -1000, "stages": [{"token": HOST, "complete": True}]},
             {"op": "read_callback", "initial": "show tok0", "rt": 3500, "stages": [{"token": "marker tok0", "complete": True}]},
             {"op": "send_and_read", "ov": {"ms": 7500}, "cmd": "show version", "rd": 2999},
             {"op": "send_command", "ov": {"ms": 7500}, "cmd": "show version"},
             {"op": "send_interactive", "ov": {"ms": 0}, "cmd": "show version"}]
    for stack in ("sync", "async"):
        for kind in ("generic", "cisco_iosxe"):
            for has_set in (False, True):
                for spec in after:
                    out.append({"stack": stack, "kind": kind, "has_set": has_set, "base_ops": 30000, "base_tr": 30000, "must": True,
                                "policy": ["whole"], "calls": [closer, {"spec": spec, "faults": {}, "heal": "none"}]})
    return out


def degenerate_shapes():
    """every operation that takes a per-call timeout_ops x every degenerate argument: empty batch (no command / empty config
    string / file without a line; with and without stop_on_failed), wrong type, file that is not there; and send_and_read /
    channel.send_input_and_read with expected outputs that are no regular expression x read duration"""
    shapes = []
    for op in PLURAL:
        shapes.append({"op": op, "cmds": [], "stop": False})
        shapes.append({"op": op, "cmds": [], "stop": True})
    for op, args in DEGENERATE_FOR.items():
        for arg in args:
            sp = {"op": op, "arg": arg}
            if op in PLURAL:
                sp.update(cmds=["show version", "show tok1"] if "command" in op else ["interface loopback0", "description x"], stop=False)
            else:
                sp["cmd"] = "show version"
            shapes.append(sp)
    # send_and_read / channel.send_input_and_read whose expected outputs are no regular expression x read duration
    # (absent = 2.5, None, 0, fractional, above the configured timeout_transport)
    for n, bad in enumerate(BAD_REGEX):
        for m, rd in enumerate(["absent", None, 0, 2999, 45000]):
            for via in ("driver", "channel"):
                sp = {"op": "send_and_read", "cmd": "show version", "expected": [bad] if (n + m) % 3 else ["marker", bad]}
                if rd != "absent":
                    sp["rd"] = rd
                if via == "channel":
                    sp["via"] = "channel"
                shapes.append(sp)
    return shapes


def enumerate_degenerate(full=False):
    """the degenerate shapes x override class x driver x stack, one call each on a fresh connection (deterministic).  None of
    these calls reaches the device except through the privilege handling of the network drivers, so they are cheap and
    the quick tier runs the whole product (full: also every shape on a transport with _set_timeout and followed by an
    ordinary call without override - what the search for a failing input adds when an obligation no longer checks)."""
    ovs_all = [None, {"ms": 30000}, {"ms": 0}, {"ms": 7500}, {"ms": 60000, "int": True}, {"bad": "str"}]
    follow = {"spec": {"op": "send_command", "ov": None, "cmd": "show version"}, "faults": {}, "heal": "none"}
    out = []
    for stack in ("sync", "async"):
        for kind in ("generic", "cisco_iosxe", "network"):
            for n, sp in enumerate(degenerate_shapes()):
                cfg_op = sp["op"] in ("send_config", "send_configs", "send_configs_from_file")
                if kind == "generic" and cfg_op:
                    continue
                cls = degenerate_class(sp)
                empty = cls == "empty"
                if not full and kind == "network" and not empty and sp["op"] not in PLURAL:
                    continue          # NetworkDriver = IOSXEDriver's code for the singular operations
                if cls == "bad-regex":
                    # these calls do reach the device (input written, echo read) before they fail; always followed by an
                    # ordinary call.  The channel's method takes no timeout_ops.
                    ovs = [None] if sp.get("via") == "channel" else (ovs_all if full else [ovs_all[n % len(ovs_all)], {"ms": 7500}])
                else:
                    ovs = ovs_all if full or (empty and not sp["stop"]) else [{"ms": 0}, {"ms": 7500}, {"bad": "str"}]
                for has_set in ((False, True) if full else (bool(n % 2),)):
                    for ov in ovs:
                        spec = dict(sp)
                        spec["ov"] = ov
                        fsets = [{}]
                        if kind != "generic" and cfg_op and empty and ov is not None and ov.get("ms") == 7500:
                            # the one place where such a call does I/O: entering configuration mode before the (empty) batch
                            fsets += [{"r0": "timeout"}, {"w0": "conn"}, {"r1": "interrupt"}]
                        for fs in fsets:
                            calls = [{"spec": spec, "faults": fs, "heal": "reopen_drain"}]
                            out.append({"stack": stack, "kind": kind, "has_set": has_set, "base_ops": 30000, "base_tr": 30000,
                                        "policy": ["whole"], "calls": calls + ([follow] if full or cls == "bad-regex" else [])})
    return out


def real_timer_scenarios():
    """the library's own timeout mechanisms fire (signal timer / asyncio.wait_for) on a silent device"""
    out = []
    for stack in ("sync", "async"):
        for has_set in (False, True):
            for spec in ({"op": "send_command", "ov": {"ms": 120}, "cmd": "show version"},
                         {"op": "send_and_read", "ov": {"ms": 120}, "cmd": "show version", "rd": 5000},
                         {"op": "send_interactive", "ov": {"ms": 120}, "cmd": "show version"},
                         {"op": "send_commands", "ov": {"ms": 120}, "cmds": ["show version", "show tok1"], "stop": False}):
                for silent in ("echo", "all"):
                    out.append({"stack": stack, "kind": "generic", "has_set": has_set, "base_ops": 30000, "base_tr": 30000,
                                "policy": ["whole"], "block": 3.0, "silent": silent,
                                "calls": [{"spec": spec, "faults": {}, "heal": "none"},
                                          {"spec": {"op": "send_command", "ov": {"ms": 7500}, "cmd": "show version"}, "faults": {}, "heal": "none"}]})
    return out


# ------------------------------------------------------------------------------------------------
# running a scenario
# ------------------------------------------------------------------------------------------------
def run_scenario(scen):
    """returns the list of call records (with .conn_has_set) of one scenario on a fresh connection"""
    conn = Conn(scen)
    recs = []
    try:
        initial = conn.state()
        for k, c in enumerate(scen["calls"]):
            if scen.get("silent") and k == 0:
                cmd = c["spec"].get("cmd") or c["spec"]["cmds"][0]
                conn.dev.silent_after = len(conn.dev.plain) + (len(cmd) if scen["silent"] == "echo" else 0)
            rec = conn.run(conn.call_op(c["spec"], c.get("faults")))
            rec["case"] = case_term(conn, rec)
            rec["has_set"] = conn.has_set
            rec["initial"] = initial
            recs.append(rec)
            if scen.get("silent") and k == 0:
                conn.dev.silent_after = None
                conn.heal("reopen_drain")
            conn.heal(c.get("heal", "none"))
    finally:
        conn.close()
    return recs


def jsonable_rec(rec):
    return {"spec": rec["spec"], "before": [repr(x) for x in rec["before"]], "after": [repr(x) for x in rec["after"]],
            "outcome": rec["outcome"], "seen": [[p, [repr(x) for x in s]] for p, s in dedup(rec["trace"])],
            "model_term": rec.get("term"), "unmodelled": rec.get("unmodelled")}


def count(d, k):
    d[k] = d.get(k, 0) + 1


def degenerate_class(spec):
    if spec.get("arg"):
        return "missing-file" if spec["arg"] == "nofile" else "wrong-type"
    if spec["op"] in PLURAL and not spec["cmds"]:
        return "empty"
    if spec["op"] == "send_and_read" and uncompilable(spec.get("expected")):
        return "bad-regex"
    return None


def ov_class(spec, base_ops):
    ov = spec.get("ov")
    if spec["op"] == "read_callback":
        rt = spec.get("rt", -1000)
        return "rt:bad" if isinstance(rt, dict) else ("rt:default/negative" if rt < 0 else ("rt:0" if rt == 0 else ("rt:fractional" if rt % 1000 else "rt:int")))
    if ov is None:
        return "none"
    if "bad" in ov:
        return "bad:" + ov["bad"]
    if ov["ms"] == base_ops:
        return "equal-int" if ov.get("int") else "equal"
    if ov["ms"] == 0:
        return "zero"
    if ov["ms"] < 0:
        return "negative"
    return "fractional" if ov["ms"] % 1000 else "int"


def run(rep):
    from gen import gen_timeouts

    rng = rep.rng
    thorough = rep.tier == "thorough"
    # 1. regenerate from the source
    info = {}
    try:
        _, info = gen_timeouts.generate(rep.workdir)
        rc, out, _ = common.coqc(os.path.join(rep.workdir, "Gen_Timeouts.v"), rep.workdir)
        if rc:
            rep.broken.append("Gen_Timeouts.v")
            rep.notes.append(out[-2000:])
    except Exception as e:  # translator aborted: broken tie
        rep.broken.append("gen_timeouts:%s" % e)
    # 2. proofs
    ok, _ = rep.build_static()
    rep.add_static_obligations("props/C14.v", ok)
    if not ok:
        rep.broken.append("static-build")
    if ok and not [b for b in rep.broken if b.startswith("Gen_") or b == "static-build"]:
        rep.compile_props("props/C14.v")
    # 3. implementation runs
    scens = []
    corpus_dir = os.path.join(common.VERIF, "findings")
    for f in sorted(os.listdir(corpus_dir)):
        if f.startswith("C14-") and f.endswith(".json"):
            scens.append(("corpus:" + f, json.load(open(os.path.join(corpus_dir, f)))["scenario"]))
    single = enumerate_single(thorough)
    single_rest = []
    if not thorough:
        # a seeded third of the product in the quick tier (the corpus and the generators cover the rest; the other two thirds
        # are what the search for a failing input runs when an obligation no longer checks)
        picked = [bool(s.get("must")) or rng.random() < 0.34 for s in single]
        single_rest = [s for s, p_ in zip(single, picked) if not p_]
        single = [s for s, p_ in zip(single, picked) if p_]
    scens += [("single", s) for s in single]
    scens += [("real-timer", s) for s in real_timer_scenarios()]
    for _ in range(900 if thorough else 150):
        scens.append(("seq", gen_scenario(rng, rng.randint(2, 6))))
    for _ in range(300 if thorough else 50):
        scens.append(("malformed", gen_scenario(rng, rng.randint(1, 4), malformed=True)))
    # calls with a degenerate argument and a timeout override (empty batch / empty config string / file without a line, wrong
    # type, missing file): the whole product, and histories that mix them with ordinary calls, faults, nested calls in
    # callbacks.  Own stream (seeded from VERIF_SEED), so the streams above and the suites below stay what they were.
    scens += [("degenerate", s) for s in enumerate_degenerate(full=thorough)]
    drng = random.Random("C14-degenerate-%s" % rep.seed)
    for _ in range(300 if thorough else 40):
        scens.append(("degenerate-seq", gen_scenario(drng, drng.randint(2, 5), malformed=drng.random() < 0.15, degen=0.4)))

    dist = {"scenarios": {}, "calls": 0, "ops": {}, "override_class": {}, "outcomes": {}, "fault_kinds": {}, "stack": {},
            "driver": {}, "transport_with_set_timeout": 0, "nested_ops": 0, "unmodelled": {}, "modelled": 0,
            "override_in_effect_seen": 0, "transport_timeout_swapped_seen": 0, "real_timer_fired": 0,
            "degenerate_argument": {}, "degenerate_argument_with_override": 0, "degenerate_argument_nested_in_callback": 0}
    terms, term_recs, failures = [], [], []
    for label, scen in scens:
        count(dist["scenarios"], label.split(":")[0])
        try:
            recs = run_scenario(scen)
        except Exception as e:  # the machinery failed on this scenario: fail closed
            rep.broken.append("harness failed on a scenario: %s: %r" % (label, e))
            rep.notes.append(json.dumps(scen)[:1500])
            continue
        for k, rec in enumerate(recs):
            spec = rec["spec"]
            dist["calls"] += 1
            count(dist["ops"], spec["op"])
            count(dist["override_class"], ov_class(spec, scen["base_ops"]))
            count(dist["outcomes"], rec["outcome"])
            count(dist["stack"], scen["stack"])
            count(dist["driver"], scen["kind"])
            dist["transport_with_set_timeout"] += int(scen["has_set"])
            for fk in scen["calls"][k].get("faults", {}).values():
                count(dist["fault_kinds"], fk)
            if label == "real-timer" and k == 0 and rec["outcome"] in ("ScrapliTimeout", "ScrapliConnectionNotOpened"):
                dist["real_timer_fired"] += 1
            seen = dedup(rec["trace"])
            if any(not same_value(s[0], rec["before"][0]) for _, s in seen):
                dist["override_in_effect_seen"] += 1
            if any(not same_value(s[1], rec["before"][1]) for _, s in seen):
                dist["transport_timeout_swapped_seen"] += 1
            for sg in spec.get("stages", []):
                dist["nested_ops"] += len(sg.get("nested", []))
                dist["degenerate_argument_nested_in_callback"] += len([n_ for n_ in sg.get("nested", []) if degenerate_class(n_)])
            if degenerate_class(spec):
                count(dist["degenerate_argument"], "%s:%s:%s" % (spec["op"], degenerate_class(spec), rec["outcome"]))
                dist["degenerate_argument_with_override"] += int(ov_class(spec, scen["base_ops"]) in ("zero", "int", "fractional", "negative"))
            nontrivial = len(seen) > 1 or rec["outcome"] not in ("Ok",)
            rep.case((label, json.dumps(scen["calls"][k], sort_keys=True, default=repr), scen["stack"], scen["kind"], scen["has_set"],
                      scen["base_ops"], scen["base_tr"]), nontrivial=nontrivial)
            bad = oracle(rec)
            if bad:
                failures.append((label, scen, k, rec, bad))
            if rec["case"] is None:
                count(dist["unmodelled"], rec.get("unmodelled") or "value without model counterpart")
            else:
                dist["modelled"] += 1
                terms.append(rec["case"])
                term_recs.append((label, scen, k, rec))
            if label in ("seq", "single") and len(seen) > 2:
                rep.sample({"stack": scen["stack"], "driver": scen["kind"], "call": spec, "faults": scen["calls"][k].get("faults"),
                            "before": [repr(x) for x in rec["before"]], "seen_during": [[p, [repr(x) for x in s]] for p, s in seen],
                            "after": [repr(x) for x in rec["after"]], "outcome": rec["outcome"]}, limit=5)

    # 3b. the thread based timeout (real threads; reads that block until close() lets them go - later or never)
    pool_scens = [("pool", s_) for s_ in c14_pool.fixed_scenarios(thorough)]
    for _ in range(40 if thorough else 3):
        pool_scens.append(("pool-seq", c14_pool.gen_scenario(rng)))
    pdist = {"scenarios": len(pool_scens), "calls": 0, "path": {}, "ops": {}, "outcomes": {}, "timed_out_in_timed_read": 0,
             "timed_out_elsewhere": 0, "read_never_wakes": 0, "call_blocked_until_released": 0, "user_reconfigures_after_end": 0,
             "threads_left_at_end": 0, "modelled": 0, "unmodelled": {}}
    pool_terms, pool_term_recs, pool_failures = [], [], []
    for label, scen in pool_scens:
        try:
            recs = c14_pool.run_scenario(scen)
        except Exception as e:  # the machinery failed on this scenario: fail closed
            rep.broken.append("harness failed on a scenario: %s: %r" % (label, e))
            rep.notes.append(json.dumps(scen)[:1500])
            continue
        for k, rec in enumerate(recs):
            spec = rec["spec"]
            pdist["calls"] += 1
            count(pdist["path"], scen["path"])
            count(pdist["ops"], spec["op"])
            count(pdist["outcomes"], "Blocks" if rec["gave_up"] else rec["outcome"])
            pdist["threads_left_at_end"] += rec["leaked"]
            if spec.get("silent"):
                if any(ph == "timed" for ph, _ in rec["seen"]):
                    pdist["timed_out_in_timed_read"] += 1
                else:
                    pdist["timed_out_elsewhere"] += 1
                pdist["read_never_wakes"] += int(spec.get("release") == "never")
                pdist["call_blocked_until_released"] += int(rec["gave_up"])
                pdist["user_reconfigures_after_end"] += int(bool(spec.get("reconf")))
            if not rec["on_worker"]:
                rep.broken.append("pool scenario: the call's I/O did not run in a worker thread (%s path)" % scen["path"])
            rep.case((label, json.dumps(scen["calls"][k], sort_keys=True), scen["path"], scen["kind"], scen["has_set"],
                      scen["base_ops"], scen["base_tr"]), nontrivial=len(dedup(rec["seen"])) > 1 or rec["outcome"] != "Ok")
            bad = c14_pool.oracle(rec)
            if bad:
                pool_failures.append((label, scen, k, rec, bad))
            term, why = c14_pool.case_term(rec, info["pool_joins"]) if "pool_joins" in info else (None, "pool: no generated facts")
            if term is None:
                count(pdist["unmodelled"], why)
            else:
                pdist["modelled"] += 1
                pool_terms.append(term)
                pool_term_recs.append((label, scen, k, rec))
            if spec.get("silent") and k < 2:
                rep.sample({"suite": "pool", "path": scen["path"], "driver": scen["kind"], "observed": c14_pool.jsonable_rec(rec)}, limit=7)
    dist["thread_timeout"] = pdist

    # 3c. overlapping calls on different connections (asyncio tasks in one loop / threads, deterministic interleaving)
    ov_scens = [("overlap", s_) for s_ in c14_overlap.fixed_scenarios(thorough)]
    for _ in range(240 if thorough else 24):
        ov_scens.append(("overlap-gen", c14_overlap.gen_planned(rng)))
    odist = {"scenarios": len(ov_scens), "stack": {}, "connections": {}, "calls": 0, "ops": {}, "outcomes": {}, "driver": {},
             "calls_overlapping_a_call_on_another_connection": 0, "calls_parked_while_another_connection_ran": 0,
             "ended_last_of_overlapping_calls_with_override": 0, "distinct_configured_timeout_ops": 0,
             "ended_by_own_timeout_ops": 0, "modelled": 0, "unmodelled": {}}
    ov_terms, ov_term_res, ov_failures = [], [], []
    for label, scen in ov_scens:
        try:
            res = c14_overlap.run_scenario(scen)
        except Exception as e:  # the machinery failed on this scenario: fail closed
            rep.broken.append("harness failed on a scenario: %s: %r" % (label, e))
            rep.notes.append(json.dumps(scen)[:1500])
            continue
        count(odist["stack"], scen["stack"])
        count(odist["connections"], str(len(scen["conns"])))
        odist["distinct_configured_timeout_ops"] += int(len({c["base_ops"] for c in scen["conns"]}) == len(scen["conns"]))
        ends = {c["id"]: [e["n"] for e in c["events"] if e["t"] == "call_end"][0] for c in res["calls"]}
        for call in res["calls"]:
            odist["calls"] += 1
            count(odist["ops"], call["spec"]["op"])
            count(odist["outcomes"], call["outcome"])
            count(odist["driver"], scen["conns"][call["conn"]]["kind"])
            others = c14_overlap.overlapped(res, call)
            odist["calls_overlapping_a_call_on_another_connection"] += int(bool(others))
            parked = any(e["t"] == "parked" for e in call["events"])
            odist["calls_parked_while_another_connection_ran"] += int(parked and bool(others))
            if others and call["spec"].get("ov") is not None and all(ends[o_] < ends[call["id"]] for o_ in others):
                odist["ended_last_of_overlapping_calls_with_override"] += 1
            if scen["calls"][call["id"]].get("park") is not None and ["timeout", call["id"]] in scen["schedule"]:
                odist["ended_by_own_timeout_ops"] += int(call["outcome"] == "ScrapliTimeout")
            rep.case((label, scen["stack"], json.dumps(scen["conns"], sort_keys=True), json.dumps(scen["calls"], sort_keys=True),
                      json.dumps(scen["schedule"]), call["id"]), nontrivial=bool(others) or call["outcome"] != "Ok")
        bad = c14_overlap.oracle(res)
        if bad:
            ov_failures.append((label, scen, res, bad))
        term, why = (c14_overlap.case_term(res) if "saved_local" in info else (None, "overlap: no generated facts"))
        if term is None:
            count(odist["unmodelled"], why)
        else:
            odist["modelled"] += 1
            ov_terms.append("(%s, %s" % ("SlotLocal" if info["saved_local"] else "SlotShared", term[1:]))
            ov_term_res.append((label, scen, res))
        if label == "overlap":
            rep.sample({"suite": "overlap", "stack": scen["stack"], "schedule": scen["schedule"],
                        "observed": c14_overlap.jsonable(res)}, limit=9)
    dist["overlapping_calls"] = odist

    # 4. the property oracle's verdicts
    ov_reported = set()
    for label, scen, res, bad in ov_failures:
        sig = c14_overlap.signature(res, bad[0])
        if sig in ov_reported or len([x for x in ov_reported if x.split(":")[2] == scen["stack"]]) >= 2:
            continue
        ov_reported.add(sig)
        cid, ci, what = bad[0]
        if cid is None:
            head = "connection %d of %d" % (ci, len(scen["conns"]))
        else:
            call = res["calls"][cid]
            head = "%s(%s) on connection %d of %d ended with %s" % (
                call["spec"]["op"], json.dumps({x: call["spec"][x] for x in call["spec"] if x in ("ov", "rd")}), ci,
                len(scen["conns"]), call["outcome"])
        rep.violation("overlapping calls on different connections (%s, %s drivers, schedule %s): %s: %s" % (
            "asyncio tasks in one loop" if scen["stack"] == "async" else "threads", scen["conns"][ci]["kind"],
            json.dumps(scen["schedule"]), head, "; ".join(w for _, _, ws in bad for w in ws)),
            {"suite": "overlap", "scenario": scen, "observed": c14_overlap.jsonable(res),
             "rerun": "./check C14 --replay <this file>"}, signature=sig)
    pool_reported = set()
    for label, scen, k, rec, bad in pool_failures:
        sig = c14_pool.signature(rec)
        if sig in pool_reported:
            continue
        pool_reported.add(sig)
        small = dict(scen)
        small["calls"] = scen["calls"][:k + 1]
        rep.violation("thread based timeout (%s path), %s(%s) ended with %s on the sync %s driver: %s" % (
            scen["path"], rec["spec"]["op"], json.dumps({x: rec["spec"][x] for x in rec["spec"] if x in ("ov", "rd", "release", "reconf")}),
            rec["outcome"], scen["kind"], "; ".join(bad)),
            {"suite": "pool", "scenario": small, "call_index": k, "observed": c14_pool.jsonable_rec(rec),
             "rerun": "./check C14 --replay <this file>"}, signature=sig)
        if len(pool_reported) >= 4:
            break
    reported = set()
    for label, scen, k, rec, bad in failures:
        sig = signature(rec)
        if sig in reported:
            continue
        reported.add(sig)
        small = dict(scen)
        small["calls"] = scen["calls"][:k + 1]
        rep.violation("after %s(%s) ended with %s on the %s %s driver: %s" % (
            rec["spec"]["op"], json.dumps({x: rec["spec"][x] for x in rec["spec"] if x in ("ov", "rd", "rt", "arg") or (x == "cmds" and not rec["spec"][x])}),
            rec["outcome"], scen["stack"], scen["kind"], "; ".join(bad)),
            {"suite": "timeout-restore", "scenario": small, "call_index": k, "observed": jsonable_rec(rec),
             "rerun": "./check C14 --replay <this file>"}, signature=sig)
        if len(reported) >= 8:
            break
    # 5. model vs implementation
    badix, log = common.eval_cases(rep.workdir, "cases_c14", HEADER,
                                   ["(inl (inl %s))" % t for t in terms] + ["(inl (inr %s))" % t for t in pool_terms]
                                   + ["(inr %s)" % t for t in ov_terms], "chk")
    n_tp = len(terms) + len(pool_terms)
    ov_badix = None if badix is None else [i - n_tp for i in badix if i >= n_tp]
    pool_badix = None if badix is None else [i - len(terms) for i in badix if len(terms) <= i < n_tp]
    badix = None if badix is None else [i for i in badix if i < len(terms)]
    rep.coverage["correspondence"] = {"suite": "timeout-restore", "cases": n_tp + len(ov_terms), "distribution": dist,
                                      "model_disagreements": None if badix is None else len(badix) + len(pool_badix) + len(ov_badix),
                                      "oracle_failures": len(failures) + len(pool_failures) + len(ov_failures)}
    rep.coverage["generated_from"] = common.source_hashes(SOURCES)
    rep.coverage["generated"] = info
    rep.rule = ("scenario = fresh real driver (GenericDriver / IOSXEDriver / NetworkDriver, sync and asyncio, transport with and without "
                "_set_timeout) over SimDevice + a sequence of calls (send_command(s)[_from_file], send_interactive, send_and_read, "
                "send_config(s)[_from_file], read_callback with 1-3 stages and nested calls in callbacks), each with an override class "
                "(none, equal float/int, 0, integer, fractional; malformed stream: str/list/dict/nan/inf/negative) and a fault plan "
                "(ScrapliTimeout / transient or permanent ScrapliConnectionError / closed transport / RuntimeError / KeyboardInterrupt|CancelledError "
                "at the n-th read or write of the call; refused privilege escalation; failing commands; raising callbacks); plus the product "
                "operation x override class x fault kind x position (a seeded third of it in the quick tier) and real-timer cases on a silent device; "
                "plus calls with a DEGENERATE ARGUMENT and a timeout override: empty batch (send_commands([]) / send_configs([]) / send_config('') / "
                "*_from_file on a file without a line, with and without stop_on_failed), an argument of the wrong type (str / tuple / None / int "
                "where a list is expected, list / None / int where a command, a config string or a path is expected), a file that is not there, "
                "send_and_read / channel.send_input_and_read whose expected_outputs are literal device text but no regular expression "
                "(unbalanced '[' or '(', leading '*', dangling backslash, multiple repeat, bad range; alone or beside a valid one) x "
                "read_duration (absent / None / 0 / fractional / above timeout_transport) x with / without timeout_ops, each followed by an ordinary call - "
                "the whole product shape x override class x stack x GenericDriver / IOSXEDriver / NetworkDriver (faults in the privilege "
                "handling that precedes an empty config batch) and seeded histories that mix such calls with ordinary ones, faults and "
                "nested calls in callbacks (own seeded stream); when an obligation no longer checks and no failing input was found, the rest "
                "of the product and the degenerate shapes on every transport kind, each followed by an ordinary call, are run as a search; "
                "plus the thread based timeout: sync drivers reached through each of its four entries (SystemTransport / TelnetTransport class name, "
                "windows flag, calling thread that is not the main thread) over a transport whose blocked read comes back a latency after close() or "
                "never, timeout_ops (per call or configured) expiring inside send_and_read's / channel.send_input_and_read's timed read, before it, "
                "in send_command / send_interactive, the timeouts read when the call has ended and again after every thread left in the call's body "
                "has finished, with or without the user assigning both timeouts in between; "
                "plus overlapping calls: 2-3 connections (GenericDriver / IOSXEDriver; asyncio drivers as tasks of one loop, sync drivers in "
                "threads) with pairwise different configured timeout_ops, 1-2 calls each (send_command(s), send_interactive, send_and_read, "
                "send_configs; override absent / equal / other), a schedule of start / release steps: a call parks at its n-th transport read "
                "while calls on the other connections start, park, finish; the parked read then returns data, raises (ScrapliTimeout, "
                "connection error, RuntimeError, KeyboardInterrupt|CancelledError) or is ended by the call's own timeout_ops (real timer); "
                "fixed shapes nested / staggered / three deep / different operations / bystander without override + seeded random interleavings; "
                "non-trivial = the call changed a timeout at some point or did not end with Ok; distinct = (scenario, call)")
    for ix in (ov_badix or [])[:4]:
        label, scen, res = ov_term_res[ix]
        rep.notes.append("model/implementation disagreement (overlapping calls): %s" % json.dumps(
            {"scenario": scen, "observed": c14_overlap.jsonable(res), "term": ov_terms[ix]})[:4000])
        if not c14_overlap.oracle(res):
            rep.broken.append("correspondence overlapping-calls: model differs from implementation (%s, %d connections)" % (
                scen["stack"], len(scen["conns"])))
    for ix in (pool_badix or [])[:4]:
        label, scen, k, rec = pool_term_recs[ix]
        rep.notes.append("model/implementation disagreement (thread based timeout): %s" % json.dumps(
            {"scenario": {x: scen[x] for x in scen if x != "calls"}, "call": scen["calls"][k], "observed": c14_pool.jsonable_rec(rec),
             "term": pool_terms[ix]})[:3000])
        if not c14_pool.oracle(rec):
            rep.broken.append("correspondence thread-timeout: model differs from implementation (%s, outcome %s)" % (rec["spec"]["op"], rec["outcome"]))
    if badix is None:
        rep.broken.append("correspondence timeout-restore (model evaluation failed)")
        rep.notes.append(log)
    elif badix:
        fail_ids = {id(f[3]) for f in failures}
        for ix in badix[:6]:
            label, scen, k, rec = term_recs[ix]
            rep.notes.append("model/implementation disagreement: %s" % json.dumps(
                {"scenario": {x: scen[x] for x in scen if x != "calls"}, "call": scen["calls"][k], "observed": jsonable_rec(rec)}, default=repr)[:3000])
            if id(rec) not in fail_ids:
                rep.broken.append("correspondence timeout-restore: model differs from implementation (%s, outcome %s)" % (rec["spec"]["op"], rec["outcome"]))
        if not failures:
            # search for a failing input of the property around the disagreements: same call, every fault kind at every early position
            found = False
            for ix in badix[:4]:
                label, scen, k, rec = term_recs[ix]
                for kind in FAULTS:
                    for pos in ["r%d" % i for i in range(8)] + ["w%d" % i for i in range(4)]:
                        s2 = json.loads(json.dumps(scen))
                        s2["calls"] = s2["calls"][:k + 1]
                        s2["calls"][k]["faults"] = {pos: kind}
                        try:
                            r2 = run_scenario(s2)[-1]
                        except Exception:
                            continue
                        b2 = oracle(r2)
                        if b2:
                            rep.violation("after %s ended with %s: %s" % (r2["spec"]["op"], r2["outcome"], "; ".join(b2)),
                                          {"suite": "timeout-restore", "scenario": s2, "call_index": k, "observed": jsonable_rec(r2)},
                                          signature=signature(r2))
                            found = True
                            break
                    if found:
                        break
                if found:
                    break


    # 6. an obligation (generated fact, proof, correspondence) no longer checks and nothing above produced a failing input:
    # run on the real code what the quick tier left out - the rest of the product operation x override x fault, and the
    # degenerate-argument histories on every transport kind, each followed by an ordinary call
    if rep.broken and not rep.violations and not (failures or pool_failures or ov_failures):
        t_end = time.time() + (240 if thorough else 75)
        found = set()
        for label, scen in [("degenerate", s_) for s_ in enumerate_degenerate(full=True)] + [("single", s_) for s_ in single_rest]:
            if time.time() > t_end or len(found) >= 3:
                break
            try:
                recs = run_scenario(scen)
            except Exception:
                continue
            for k, rec in enumerate(recs):
                bad = oracle(rec)
                if bad and signature(rec) not in found:
                    found.add(signature(rec))
                    small = dict(scen)
                    small["calls"] = scen["calls"][:k + 1]
                    rep.violation("after %s(%s) ended with %s on the %s %s driver: %s" % (
                        rec["spec"]["op"], json.dumps({x: rec["spec"][x] for x in rec["spec"] if x in ("ov", "rd", "rt", "arg")}),
                        rec["outcome"], scen["stack"], scen["kind"], "; ".join(bad)),
                        {"suite": "timeout-restore", "scenario": small, "call_index": k, "observed": jsonable_rec(rec),
                         "found_by": "search after a broken obligation (%s)" % label,
                         "rerun": "./check C14 --replay <this file>"}, signature=signature(rec))
        dist["search_after_broken_obligation"] = {"ran": True, "failing_inputs": len(found)}


def replay_pool(scen):
    recs = c14_pool.run_scenario(scen)
    rc = 0
    for k, rec in enumerate(recs):
        bad = c14_pool.oracle(rec)
        print("call %d (%s path): %s  outcome=%s%s" % (k, scen["path"], json.dumps(rec["spec"]), rec["outcome"],
                                                       "  (the call only ended when the harness let the blocked read go)" if rec["gave_up"] else ""))
        print("   before %r  during %r  when the call ended %r  threads still in the call %d  afterwards %r (expected %r)" % (
            rec["before"], [s for _, s in dedup(rec["seen"])], rec["at_end"], rec["leaked"], rec["settled"], rec["expected_settled"]))
        if bad:
            print("   property FAILS on this call: " + "; ".join(bad))
            rc = 1
    if rc == 0:
        print("property holds on this input")
    return rc


def replay_overlap(scen):
    res = c14_overlap.run_scenario(scen)
    bad = c14_overlap.oracle(res)
    print("%d connections (%s), schedule %s" % (len(scen["conns"]), "asyncio tasks in one loop" if scen["stack"] == "async" else "threads",
                                                json.dumps(scen["schedule"])))
    for i, c in enumerate(res["conns"]):
        print("connection %d (%s): configured timeout_ops / timeout_transport %r" % (i, c["kind"], c["configured"]))
    for call in res["calls"]:
        print("call %d on connection %d: %s  outcome=%s  in flight meanwhile on other connections: %r" % (
            call["id"], call["conn"], json.dumps(call["spec"]), call["outcome"], c14_overlap.overlapped(res, call)))
        print("   before %r  during %r  when the call ended %r" % (
            call["before"], [s_ for _, s_ in c14_overlap.dedup([(e["phase"], e["state"]) for e in call["events"] if e["t"] == "io"])],
            call["at_end"]))
    for i, c in enumerate(res["conns"]):
        print("connection %d after every call has ended: %r" % (i, c["final"]))
    for cid, ci, what in bad:
        print("   property FAILS (%s): %s" % ("connection %d" % ci if cid is None else "call %d" % cid, "; ".join(what)))
    if not bad:
        print("property holds on this input")
    return 1 if bad else 0


def replay(path):
    r = json.load(open(path))
    scen = r.get("scenario")
    if not scen:
        print("nothing to replay (no concrete input): %s" % r.get("what"))
        return 1
    common.setup_env()
    if scen.get("suite") == "pool":
        return replay_pool(scen)
    if scen.get("suite") == "overlap":
        return replay_overlap(scen)
    recs = run_scenario(scen)
    rc = 0
    for k, rec in enumerate(recs):
        bad = oracle(rec)
        print("call %d: %s  outcome=%s" % (k, json.dumps(rec["spec"]), rec["outcome"]))
        print("   before %r  during %r  after %r" % (rec["before"], [s for _, s in dedup(rec["trace"])], rec["after"]))
        if bad:
            print("   property FAILS on this call: " + "; ".join(bad))
            rc = 1
    if rc == 0:
        print("property holds on this input")
    return rc


MANIFEST = {
    "text": "Coq theorem timeouts_restored (props/C14.v): in the model of the repaired code, for EVERY sequence of calls of the operations "
            "that accept a per-call timeout (send_command, send_commands[_from_file], send_interactive, send_and_read with its read_duration, "
            "read_callback with its read_timeout / next_timeout recursion, and the NetworkDriver variants incl. send_config(s)), EVERY override "
            "value (absent, equal to current, 0, any integer number of milliseconds, non-numbers), EVERY outcome of every step (success, failed "
            "command, ScrapliTimeout, connection error, closed transport, privilege error, exception in a callback, KeyboardInterrupt/CancelledError, "
            "a read that never returns) and callbacks that themselves run such calls, timeout_ops, timeout_transport and the timeout pushed into the "
            "library session are afterwards what they were before; the pinned code (restore outside finally) is refuted by a vm_compute witness and "
            "its partial statement is proved. Axiom-free. Tie: Gen_Timeouts.v (methods accepting timeout_ops/read_duration/read_timeout, defaults, "
            "ast facts: each restore is in a finally, timeout_ops handed on by keyword) regenerated on every run; the model is executed by vm_compute "
            "on the fault history of each real call (sync and asyncio drivers over the simulated device) and must reproduce the state after, the "
            "outcome class and the sequence of timeout values seen at every transport read/write; an independent oracle compares the three values "
            "before/after on the real connection and, for the other half of the statement, checks on the observations alone that the value passed "
            "for the call (timeout_ops, int(read_duration), read_timeout) is the one in effect at the call's own reads and writes. "
            "Degenerate arguments (C14_degenerate_calls_touch_nothing): an empty batch / empty config string / file without a line reaches no "
            "decorated call and an argument check that raises (wrong type, missing file) ends the public method before one, so the override is "
            "never set and the state is untouched; the histories contain every such call shape with every override class on all three driver "
            "kinds and both stacks (same oracle: after the call, whatever its outcome, every timeout equals its configured value), and the model "
            "term of such a call is built from the observation that no decorated _send_command was entered. "
            "A send_and_read whose expected outputs do not compile as a regular expression fails with re.error AFTER the input was written "
            "and its echo read, on entry of the timed read and before its first read: model term OSendAndRead o rd (PIo EOther) [] - under "
            "the override, timeout_transport never swapped (on the unchanged tree the pattern is compiled before the swap); the oracle "
            "decides on the observed values that timeout_transport / the session timeout are the configured ones after the failed call "
            "and after the ordinary call that follows. "
            "Thread based timeout of the sync stack (decorators._multiprocessing_timeout: system/telnet transports, windows, non-main threads): "
            "theorem pool_call_restores - because the pool's exit joins the worker, when ScrapliTimeout reaches the caller the worker has left "
            "send_and_read's timed read through its finally, so all three values are what they were AT THE MOMENT THE CALL ENDS and no thread is left "
            "to write them afterwards; a call whose blocked read never wakes never ends (pool_call_blocks_iff); without the join the statement is "
            "refuted (pool_unjoined_refuted, pool_unjoined_late_write). The join is a generated obligation (gen_pool_joins, gen_thread_sites: the one "
            "executor of decorators.py is a context manager / shut down with wait=True in a finally covering every raise and return; nothing else there "
            "starts a thread). Correspondence + oracle on real threads (harness/c14_pool.py): scripted transport whose blocked read is released by "
            "close() after a latency or never; values read by the calling thread when the call has ended, and again after every thread still in "
            "the call's body has finished (optionally after the user re-assigned both timeouts). "
            "Overlapping calls on DIFFERENT connections (timeout_modifier wraps a method: one wrapper for every connection): model TimeoutOverlap.v - a "
            "world of any number of connections with disjoint TimeoutRestore states, the frame of the call in flight on each, and a schedule "
            "(global sequence of wrapper entry / I/O / timed-read entry, exit / wrapper exit events) as input; with the saved value a local of the "
            "wrapper call: interleaving_preserves_restore (EVERY schedule, EVERY number of connections, at EVERY moment a connection that is not "
            "inside a call has its own timeouts), interleaving_is_a_product (a connection's part of the interleaved run = its own events run alone), "
            "own_override_in_effect (its I/O sees its override whatever the others do); with a slot shared between connections (nonlocal of the "
            "decorator, module / class attribute) the statement is refuted by vm_compute witnesses (nested and staggered calls of two connections: "
            "the call that started first ends with the other connection's timeout_ops; shared_slot_not_a_product), while without overlap either slot "
            "restores (shared_slot_sequential_restores: why sequences on one connection cannot tell). Which slot the source has is a generated "
            "obligation (gen_saved_in_frame / gen_saved_local: at each of the six swap sites the restored value is a name bound once, in the "
            "function's own scope, from the timeout attribute, not nonlocal/global; nothing restored in a finally from anywhere else). "
            "Correspondence + oracle on real drivers (harness/c14_overlap.py): 2-3 connections with different configured timeouts, asyncio drivers "
            "as tasks of one event loop and sync drivers in threads, interleaved deterministically by scripted transports that park a call on a "
            "read (no sleeps); the model is run on the schedule as observed and must reproduce every connection's observations and final state; "
            "the oracle checks per call own-values-restored-at-its-end and own-override-in-effect, per connection own configured values at the end.",
    "note": "partial: the runtime is observed, not verified - the model takes the call's control flow (which read raised what, which callback matched) "
            "from the observed run and proves the bookkeeping; that scrapli's Python follows the model is checked by the correspondence run only. "
            "Trusted: Coq kernel + vm_compute; hand model coq/model/TimeoutRestore.v; gen/gen_timeouts.py (ast reading); SimDevice and the scripted "
            "transports (a stub with _set_timeout stands for paramiko/ssh2); CPython signal/asyncio timers; for the thread based timeout also concurrent.futures "
            "(ThreadPoolExecutor.__exit__ = shutdown(wait=True) joins the worker) and the scripted pty-like transport of harness/c14_pool.py (sub-second "
            "real-time timeouts: a timeout that hits a worker which is not yet blocked in its read is judged by the oracle only; a call is taken to hang "
            "when it has not ended 0.4 s after its timeout_ops - it is then released and judged at its real end). In the model of the thread mechanism "
            "where the worker is when the time is up and whether its read wakes are inputs taken from the observed run; calls on that path that do not "
            "time out are oracle-only (same code as the modelled operations). "
            "Overlapping calls on different connections: the interleaving (which event of which connection happens when) is an input taken from "
            "the observed run; the harness chooses it (one call per connection at a time - one channel -, a call yields to the others only at a "
            "transport read, which is where asyncio tasks and blocked threads of the real stacks interleave); preemption of a thread between two "
            "bytecodes of the wrapper itself is not explored by the scenarios (the model's events of one connection are atomic; the theorem covers "
            "every order of them). The entry of the decorated method is not observed directly: it is placed at the instrumented _send_command "
            "entry, resp. at the call's first event outside acquire_priv. Trusted for this suite also: asyncio's task scheduling / threading "
            "primitives, gen_timeouts.analyse_saved (ast); a parked call ended by its own timeout_ops uses a real 80 ms timer. "
            "Degenerate-argument calls: that an argument check sits before every decorated call is taken from the observed run (no "
            "_send_command entered, no I/O of the call's own), not from the source; send_interactive / send_and_read given a non-string fail "
            "inside the decorated call (modelled as BPre / PNoIo under the override). "
            "Uncompilable expected outputs: that the failure comes before the swap of timeout_transport is taken from the observed run (the "
            "timed read was entered and left by re.error with no read of its own), not from the source; channel.send_input_and_read called "
            "directly is modelled as OSendAndRead OvNone. "
            "Not modelled: values nan/inf (oracle only), "
            "a callback that sets the timeouts itself (excluded by the theorem's hypothesis on callbacks).",
    "technique": "Coq proof (case analysis over outcomes, induction over call sequences / read_callback stages, invariant session timeout = transport timeout) "
                 "+ vm_compute correspondence against both real driver stacks with fault injection at every read/write + before/after oracle "
                 "+ exhaustive product of degenerate-argument calls (empty batch, wrong type, missing file) x override class, and a search over the "
                 "left-out part of the products when an obligation breaks "
                 "+ real-thread scenarios on the thread based timeout (end-of-call and after-the-call observers) + ast obligation that the executor joins its worker "
                 "+ multi-connection interleaving model (invariant over schedules, projection/product lemma, vm_compute refutation of a shared slot) with "
                 "deterministic overlapping-call scenarios on asyncio tasks and threads (parking transports) + ast obligation that restored values are frame locals",
}
