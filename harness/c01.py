"""C01 — a command's response is exactly what the device printed for that command.

proof: coq/proofs/Channel_Proofs.v over coq/model/Channel.v (+ Response.v), props/C01.v.
tie: Gen_Channel.v regenerated from the source (search depth, return char, the prompt pattern of a constructed
driver of every kind, the ANSI patterns, structural facts of the channel code) with obligations compiled over
it + correspondence of the model against the REAL drivers (Generic, Network, the five core platforms; sync and
asyncio) over a causal framing device, for histories of 2-6 operations under generated chunkings.
oracle: decided on the device's own log of what each line printed, independent of the model.  Focused in-domain
streams (focus_scenarios): prompt-like line suffixes at the search-depth point, dialogues that repeat an expected
response (with / without interaction_complete_patterns), two-line prompts, UTF-8 text whose continuation bytes 0x9b / 0x9d
(the 8-bit CSI / OSC codes as single bytes) are followed by everything the ANSI pattern could consume, in outputs and in
echoes, inside one read and cut by a read boundary; commands of 20 .. 1100 characters whose echo arrives in several reads;
histories in which the user CHANGES the prompt pattern of the open connection between operations (driver attribute, channel
arguments, update_privilege_levels() after editing a level pattern): the oracle's domain and the model (run_segs) take the
pattern in force at each operation; tie: the channel compiles the pattern text at each use (AST + probe in gen_channel);
command-in-output = device outputs DERIVED FROM THE TYPED TEXT (a line equal to the command - exactly, up to case, up to blanks,
followed by a return -, the command as prefix / suffix of a line, repeated; as first / inner / last / only line) for send_command,
send_commands (own / neighbouring command) and send_interactive (event inputs against the texts and the final output), all driver
kinds; tie: the REAL _process_output is probed with every signature it accepts (gen_channel), the model's is a function of the
buffer alone."""
import json
import os
import re

from . import common
from .common import coq_bool, coq_list
from .c01_dev import b2s, platform_prompt, run_connection, s2b

LEVEL = "proof"
SOURCES = ["scrapli/channel/sync_channel.py", "scrapli/channel/async_channel.py", "scrapli/channel/base_channel.py",
           "scrapli/driver/generic/sync_driver.py", "scrapli/driver/generic/async_driver.py",
           "scrapli/driver/generic/base_driver.py", "scrapli/response.py", "scrapli/helper.py",
           "scrapli/driver/network/sync_driver.py", "scrapli/driver/network/async_driver.py"] + [
    "scrapli/driver/core/%s/base_driver.py" % p for p in ("cisco_iosxe", "cisco_iosxr", "cisco_nxos", "arista_eos", "juniper_junos")]
KINDS = ["generic", "network", "cisco_iosxe", "cisco_iosxr", "cisco_nxos", "arista_eos", "juniper_junos"]
BLANK = b" \t"
WS = b" \t\n\r\x0b\x0c"
# characters that can end a prompt of some driver pattern, and the braces of the Junos banner line
RISKY = set(b"#>$%~@:]{}")
SAFE = bytes(c for c in range(33, 127) if c not in RISKY)


# ------------------------------------------------------------------------------------------------
# specification side (independent of scrapli and of the Coq model)
# ------------------------------------------------------------------------------------------------
def normalise(text):
    """trailing white space of every line trimmed, surrounding blank lines trimmed"""
    lines = [l.rstrip(WS) for l in text.split(b"\n")]
    while lines and not lines[0]:
        lines.pop(0)
    while lines and not lines[-1]:
        lines.pop()
    return b"\n".join(lines)


def clean_body(text):
    return text + b"\n" if text else b""


def split_prompt(prompt):
    core = prompt.rstrip(BLANK)
    return core, prompt[len(core):]


def window(depth, buf):
    """what a prompt search looks at: the last `depth` bytes, minus a first partial line when something follows it"""
    w = buf[-depth:] if depth and len(buf) > depth else (buf if depth else b"")
    head, sep, tail = w.partition(b"\n")
    return tail if tail else head


def driver_pattern(kind):
    from gen import gen_channel
    d = gen_channel._driver(kind, True)
    return re.compile(d.channel._base_channel_args.comms_prompt_pattern.encode(), re.M | re.I)


_PATS = {}


def pattern_of(kind):
    if kind not in _PATS:
        _PATS[kind] = driver_pattern(kind)
    return _PATS[kind]


_CPATS = {}


def compiled(text):
    """a comms_prompt_pattern as scrapli documents its use: bytes, multi-line, case-insensitive"""
    if text not in _CPATS:
        _CPATS[text] = re.compile(text.encode(), re.M | re.I)
    return _CPATS[text]


def in_force(scn):
    """per operation: (name, compiled pattern) of the prompt pattern IN FORCE when the operation is called - the pattern of the
    constructed driver until the user sets another one (op "setpat": `conn.comms_prompt_pattern = ...`, the channel's arguments,
    update_privilege_levels() after editing level patterns), then that one.  For a setpat operation: the pattern it sets."""
    cur = (scn["kind"], pattern_of(scn["kind"]))
    out = []
    for op in scn["ops"]:
        if op["op"] == "setpat":
            cur = (op["pattern"], compiled(op["pattern"]))
        out.append(cur)
    return out


def response_search(pat, resp):
    """how an expected response of send_interactive is looked for (documented behaviour of scrapli); pat: the compiled prompt
    pattern in force"""
    if not resp:
        return lambda b: bool(pat.search(b))
    rb = resp.encode()
    if rb.startswith(b"^") and rb.endswith(b"$"):
        cp = re.compile(rb, re.M | re.I)
        return lambda b: bool(cp.search(b))
    return lambda b: rb in b


_QUIET = {}


def quiet(found, depth, text, upto, key=None):
    """no proper prefix of text[:upto] (none shorter than `upto`) is read as the awaited prompt.  `key` names `found` (a pure
    function of the window) so that its verdicts are remembered: families of scenarios share most of their windows"""
    if key is None:
        return not any(found(window(depth, text[:i])) for i in range(1, upto))
    memo = _QUIET.setdefault(key, {})
    if len(memo) > 200000:
        memo.clear()
    for i in range(1, upto):
        w = window(depth, text[:i])
        v = memo.get(w)
        if v is None:
            v = memo[w] = bool(found(w))
        if v:
            return False
    return True


def stage_texts(scn):
    """per executed line of the device script: the clean text printed in answer (as the device logs it)"""
    out = []
    for r in scn["replies"]:
        if "stages" in r:
            for t, q, _ in r["stages"]:
                out.append(clean_body(s2b(t)) + s2b(q))
            out.append(s2b(r["final"]))
        else:
            out.append(s2b(r["out"]))
    return out


_PROMPT_OK = {}


def prompt_in_domain(pat, core, trail):
    """the device's prompt (core + trailing blank) is a prompt of the pattern, and no proper prefix of it is"""
    key = (pat.pattern, core, trail)
    if key in _PROMPT_OK:
        return _PROMPT_OK[key]
    _PROMPT_OK[key] = ok = _prompt_in_domain(pat, core, trail)
    return ok


def _prompt_in_domain(pat, core, trail):
    # a prompt of several lines (the Junos routing-engine banner line "{master:0}" in front of "user@host>"): every line
    # starts and ends in a non-blank; whether the pattern reads it as ONE prompt is decided by the searches below
    if b"\n" in core and any(not l or l[:1] in WS or l[-1:] in WS for l in core.split(b"\n")):
        return False
    for w in [trail[i:] for i in range(len(trail) + 1)]:
        for t in [trail[:i] for i in range(len(trail) + 1)]:
            m = pat.search(w + b"\n" + core + t)
            if not m or m.group(0).strip(WS) != core:
                return False
        for i in range(len(w) + 1 + len(core)):
            if pat.search((w + b"\n" + core)[:i]):
                return False
    if pat.sub(b"", b"\n" + core) != b"\n":
        return False
    return True


def in_domain(scn, exact=False):
    """the property's side conditions, decided from the scenario alone with CPython's re:
    commands without control characters; printed text without CR/ESC; no proper prefix of what the device prints
    between the return and the end of the awaited prompt is read as that prompt through the search window;
    the prompt stripped from the cleaned text is the final one only.  exact=False trusts the generator's safe
    alphabet for the two searches (they are vacuous there).
    "No complete or partial line can be read as a prompt" is read as Coq's `quiet` states it: no PREFIX of the stream (a
    complete line or a line prefix as received, seen through the search window) - a line SUFFIX is no candidate, the window
    drops its first partial line.  The prompt may have two lines (Junos banner line) if the driver's pattern reads it as one
    prompt.  send_interactive: see the comment in the branch below (completion patterns are inside the domain).
    "All prompts of the driver's pattern": the pattern is the one IN FORCE when an operation is called (in_force) - an output line
    that an earlier or a later pattern of the connection would read as a prompt is ordinary text for that operation."""
    kind, depth = scn["kind"], scn.get("depth") or 1000
    prompt = s2b(scn["prompt"])
    core, trail = split_prompt(prompt)
    if not core or core[:1] in WS or b"\n" in trail or b"\r" in prompt or len(prompt) + 1 > depth:
        return False
    # the pattern may be changed between operations: the device's prompt must be a prompt of EVERY pattern that is in force at
    # some operation, and every operation's output is judged against the pattern in force when it is called
    try:
        force = in_force(scn)
    except (re.error, KeyError, TypeError):
        return False
    for pname, pat in list(dict([(kind, pattern_of(kind))] + force).items()):
        if not prompt_in_domain(pat, core, trail):
            return False
    for r in scn["replies"]:
        texts = [s2b(r["out"])] if "out" in r else [s2b(t) + s2b(q) for t, q, _ in r["stages"]] + [s2b(r["final"])]
        if any(b"\r" in t or b"\x1b" in t for t in texts):
            return False
    k = 0
    for op, (pname, pat) in zip(scn["ops"], force):
        if op["op"] == "prompt":
            continue
        if op["op"] == "setpat":
            if op.get("via") not in ("driver", "args", "privs") or (op["via"] == "privs" and kind == "generic"):
                return False
            continue
        if op["op"] in ("cmd", "cmds"):
            cmds = [op["cmd"]] if op["op"] == "cmd" else op["cmds"]
            if op["op"] == "cmds" and op.get("eager"):
                return False
            for c in cmds:
                cb = c.encode()
                if any(x in cb for x in b"\x08\n\r\x1b"):
                    return False
                if not cb.strip(WS):
                    continue
                if k >= len(scn["replies"]) or "out" not in scn["replies"][k]:
                    return False
                out = s2b(scn["replies"][k]["out"])
                k += 1
                if exact:
                    text = b"\n" + clean_body(out) + core
                    if not quiet(lambda b: bool(pat.search(b)), depth, text, len(text), key=("class", pname)):
                        return False
                    cleaned = b"\n" + clean_body(b"\n".join(l.rstrip(WS) for l in out.split(b"\n"))) if out else b"\n"
                    if op["strip"] and pat.sub(b"", cleaned + core) != cleaned:
                        return False
        else:
            # send_interactive.  The device's script decides how many questions are asked (m stages); the caller lists
            # len(evs) events.  Without completion patterns the two agree (m + 1 events).  With completion patterns the
            # device may be back at its prompt early (m + 1 < len(evs)): the interaction is over there and the remaining
            # events must not be typed.  Every read of an event is armed with the event's expected response and the
            # completion patterns: none of them may be found before the end of what the device prints for that event.
            evs = op["events"]
            comp = list(op.get("complete") or [])
            if not evs or k >= len(scn["replies"]) or any(not p for p in comp):
                return False
            r = scn["replies"][k]
            k += 1
            stages = [(s2b(t), s2b(q), bool(e)) for t, q, e in r["stages"]] if "stages" in r else []
            final = s2b(r["final"] if "stages" in r else r["out"])
            m = len(stages)
            if (m + 1 > len(evs)) if comp else (m + 1 != len(evs)):
                return False
            cfound = [response_search(pat, p) for p in comp]
            for j, ev in enumerate(evs[:m + 1]):
                ib = ev[0].encode()
                if any(x in ib for x in b"\x08\n\r\x1b") or not ev[1]:
                    return False
                if j == 0 and (ev[2] is True or not ib.strip(WS)):
                    return False
                if j > 0 and (ev[2] is True) == stages[j - 1][2]:
                    return False      # hidden <-> not echoed
                found = response_search(pat, ev[1])

                def armed(b, found=found):
                    return found(b) or any(f(b) for f in cfound)

                if j < m:
                    t, q, _ = stages[j]
                    qc = q.rstrip(BLANK)
                    text, tail = b"\n" + clean_body(t) + qc, q[len(qc):]
                else:
                    text, tail = b"\n" + clean_body(final) + core, trail
                if armed(b" ") or armed(b""):
                    return False
                if not quiet(armed, depth, text, len(text)):
                    return False
                ends = [window(depth, text + tail[:i]) for i in range(len(tail) + 1)]
                if j < m:
                    ok = all(found(e) for e in ends)                  # the question is recognised: the dialogue goes on
                elif j == len(evs) - 1:
                    ok = all(armed(e) for e in ends)                  # last event: the read ends at the prompt
                else:                                                 # back at the prompt early: complete, not "expected"
                    ok = all(any(f(e) for f in cfound) for e in ends) and not any(found(e) for e in ends)
                if not ok:
                    return False
    return True


def diffmsg(got, want):
    """where two byte strings first differ, with some context"""
    k = 0
    while k < min(len(got), len(want)) and got[k] == want[k]:
        k += 1
    lo = max(0, k - 24)
    return "lengths %d / %d, first difference at offset %d: got ...%r, expected ...%r" % (
        len(got), len(want), k, got[lo:k + 24], want[lo:k + 24])


def oracle(scn, res):
    """list of (signature, text): property failures decided on the device's log; [] = holds"""
    bad = []
    prompt = s2b(scn["prompt"])
    core, trail = split_prompt(prompt)
    residue = res.get("residue0", b"")
    replies = list(scn["replies"])
    k = 0          # device script index
    for j, op in enumerate(scn["ops"]):
        if j >= len(res["ops"]):
            break
        o = res["ops"][j]
        name = "%s[%d]" % (op["op"], j)
        if o["exc"]:
            bad.append(("exception-" + o["exc"], "%s did not return: %s" % (name, o["exc"])))
            break
        w0 = residue
        residue = o["residue"]
        if not (trail.endswith(residue) and all(c in BLANK for c in residue)):
            bad.append(("unread-output", "%s returned with %r unread (more than the last prompt's trailing blank)" % (name, residue[:80])))
        if not o["ready"]:
            bad.append(("device-not-at-prompt", "%s returned while the device is not at its prompt" % name))
        if op["op"] == "setpat":
            # setting a pattern is no conversation with the device; afterwards the connection reports the pattern that was set
            if o["log"] or o.get("writes"):
                bad.append(("extra-lines", "%s (%s) wrote %r to the device" % (name, op["via"], [w[0] for w in o.get("writes", [])][:3])))
            if residue != w0:
                bad.append(("unread-output", "%s (%s) read from the transport" % (name, op["via"])))
            if op["via"] in ("driver", "args") and list(o.get("pattern", [])) != [op["pattern"], op["pattern"]]:
                bad.append(("pattern-not-in-force", "%s: after setting the pattern through %s the connection reports %r" % (name, op["via"], o.get("pattern"))))
            continue
        if op["op"] == "prompt":
            if o["prompt"].encode() != core:
                bad.append(("get-prompt", "get_prompt returned %r, the device's prompt is %r" % (o["prompt"], core)))
            if o["log"]:
                bad.append(("extra-lines", "get_prompt made the device execute %r" % (o["log"],)))
            continue
        if op["op"] in ("cmd", "cmds"):
            cmds = [op["cmd"]] if op["op"] == "cmd" else list(op["cmds"])
            if len(o["resp"]) != len(cmds) or len(o["chan"]) != len(cmds):
                bad.append(("response-count", "%s: %d responses for %d commands" % (name, len(o["resp"]), len(cmds))))
                break
            log = list(o["log"])
            for i, c in enumerate(cmds):
                raw_r, result, failed, cinput = o["resp"][i]
                _, ch_raw, ch_proc = o["chan"][i]
                cb = c.encode()
                if cb.strip(WS):
                    if not log or log[0][0] != cb:
                        bad.append(("device-log", "%s: the device executed %r where %r was sent" % (name, log[:1], cb)))
                        break
                    out = log.pop(0)[1]
                    k += 1
                else:
                    out = b""
                want = normalise(out) if op["strip"] else normalise(clean_body(out) + core)
                if ch_proc != want:
                    bad.append(("result", "%s %r: result is not the normalised output the device logged for that line (%s)" % (name, c[:40], diffmsg(ch_proc, want))))
                lead = len(ch_raw) - len(ch_raw.lstrip(BLANK))
                mid = b"\n" + clean_body(out) + core
                rest = ch_raw[lead:]
                if not (rest.startswith(mid) and trail.startswith(rest[len(mid):])):
                    bad.append(("raw-result", "%s %r: raw_result is not blank* + newline + output + prompt + a prefix of the prompt's trailing blank (%s)" % (
                        name, c[:40], diffmsg(rest, mid))))
                if raw_r != ch_raw or cinput != c:
                    bad.append(("response-record", "%s %r: Response.raw_result / channel_input differ from what the channel returned" % (name, c)))
                try:
                    dec = ch_proc.decode()
                except UnicodeDecodeError:
                    dec = ch_proc.decode("ISO-8859-1")
                if result != dec:
                    bad.append(("response-record", "%s %r: Response.result %r is not the decoded channel result %r" % (name, c, result[:80], dec[:80])))
            if log:
                bad.append(("extra-lines", "%s: the device executed more lines than were sent: %r" % (name, log[:3])))
            continue
        # send_interactive
        if len(o["resp"]) != 1 or len(o["chan"]) != 1:
            bad.append(("response-count", "%s: no single response" % name))
            break
        raw_r, result, failed, cinput = o["resp"][0]
        _, ch_raw, ch_proc = o["chan"][0]
        evs = op["events"]
        r = replies[k] if k < len(replies) else {"out": ""}
        k += 1
        echoes = [True] + [bool(e) for _, _, e in r.get("stages", [])]
        # the device's script says how many questions it asks: that many answers (+ the first line) are to be typed, the
        # rest of the caller's events (interaction_complete_patterns) must never reach the device
        due = evs[:len(echoes)]
        if [x[0] for x in o["log"]] != [e[0].encode() for e in due]:
            bad.append(("device-log", "%s: the device received the lines %r, due were %r (it asked %d question%s)" % (
                name, [x[0] for x in o["log"]], [e[0] for e in due], len(echoes) - 1, "" if len(echoes) == 2 else "s")))
            continue
        # in step at every event: when an answer is typed, everything the device printed before it (its question) has been read
        wr = o.get("writes") or []
        if len(wr) == 2 * len(due):
            for jj in range(1, len(due)):
                data, unread, _ = wr[2 * jj]
                if data == due[jj][0].encode() and not all(c in BLANK for c in unread):
                    bad.append(("event-out-of-step", "%s: the answer of event %d was typed while %d bytes the device printed before it were unread (%r...)" % (
                        name, jj, len(unread), unread[:60])))
                    break
        transcript = b""
        for (rawl, text), ec in zip(o["log"], echoes):
            transcript += (rawl if ec else b"") + b"\n" + text
        # the last logged text is the final output; the prompt follows it
        last = o["log"][-1][1]
        transcript = transcript[:len(transcript) - len(last)] + clean_body(last) + core
        want = normalise(w0 + transcript)
        if ch_proc != want:
            bad.append(("result", "%s: result is not the normalised transcript of the dialogue as the device logged it (%s)" % (name, diffmsg(ch_proc, want))))
        if not (ch_raw.startswith(w0 + transcript) and trail.startswith(ch_raw[len(w0 + transcript):])):
            bad.append(("raw-result", "%s: raw_result is not residue + transcript + a prefix of the trailing blank (%s)" % (name, diffmsg(ch_raw, w0 + transcript))))
        try:
            dec = ch_proc.decode()
        except UnicodeDecodeError:
            dec = ch_proc.decode("ISO-8859-1")
        if raw_r != ch_raw or result != dec:
            bad.append(("response-record", "%s: Response fields differ from what the channel returned" % name))
    return bad


# ------------------------------------------------------------------------------------------------
# model side
# ------------------------------------------------------------------------------------------------
HEADER = """From Coq Require Import Uint63 ZArith.
From Verif Require Import Bytes Regex RegexPrio Response Channel.
From Gen Require Import Gen_Channel.
(* long byte strings of the cases are written 7 bytes per primitive integer (parsing a list of N literals costs
   ~0.1 ms per byte); only this evaluation file uses primitive integers, no theorem does *)
Definition nb (x : int) : N := Z.to_N (Uint63.to_Z (x land 255)%uint63).
Definition unpack7 (x : int) : list N :=
  [nb x; nb (x >> 8)%uint63; nb (x >> 16)%uint63; nb (x >> 24)%uint63; nb (x >> 32)%uint63; nb (x >> 40)%uint63; nb (x >> 48)%uint63].
Definition pk (n : nat) (l : list int) : bytes := firstn n (flat_map unpack7 l).
Definition chk (c : scen * obs) : bool := check_scen gen_ansi gen_ansi_partial gen_hold_scan (fst c) (snd c).
"""


def coq_bytes(b):
    b = bytes(b)
    if len(b) <= 21:
        return "[" + ";".join(str(x) for x in b) + "]"
    ints = [str(int.from_bytes(b[i:i + 7], "little")) for i in range(0, len(b), 7)]
    chunks = ["[%s]%%uint63" % ";".join(ints[i:i + 400]) for i in range(0, len(ints), 400)]
    return "(pk %d%%nat (%s))" % (len(b), " ++ ".join(chunks))


def eval_balanced(workdir, name, terms, nshards):
    """common.eval_cases over shards of equal total size (the big histories spread out); indices mapped back"""
    n = len(terms)
    if not n:
        return [], ""
    k = max(1, min(nshards, n))
    by_size = sorted(range(n), key=lambda i: -len(terms[i]))
    m = -(-n // k)
    order = []
    for j in range(k):
        order += by_size[j::k]
    # pad the shards to the same length so that consecutive chunks of m are the shards
    shards = [by_size[j::k] for j in range(k)]
    order, pads = [], 0
    for sh in shards:
        order += sh + [None] * (m - len(sh))
    tt = [terms[i] if i is not None else terms[by_size[-1]] for i in order]
    bad, log = common.eval_cases(workdir, name, HEADER, tt, "chk", shard=m)
    if bad is None:
        return None, log
    return sorted({order[i] if order[i] is not None else by_size[-1] for i in bad}), log


def nat(n):
    return "%d%%nat" % n


def u8(s):
    return coq_bytes(s.encode("utf-8"))


def policy_term(p):
    k = p[0]
    if k == "whole":
        return "PWhole"
    if k == "bytes":
        return "(PBytes %s)" % nat(p[1])
    if k == "takes":
        return "(PTakes %s)" % coq_list([nat(x) for x in p[1]])
    if k == "blank":
        return "PBlank"
    if k == "lines":
        return "PLines"
    if k == "cuts":
        return "(PCuts %s)" % coq_list([nat(x) for x in sorted(p[1])])
    if k == "tail":
        return "(PTail %s)" % nat(p[1])
    raise ValueError(p)


def xpat_term(resp):
    from gen import regex as rx
    if not resp:
        return "XClass"
    rb = resp.encode()
    if rb.startswith(b"^") and rb.endswith(b"$"):
        term, _ = rx.translate(rb, re.M | re.I)
        return "(XRe %s)" % term
    return "(XLit %s)" % coq_bytes(rb)


def reply_term(r):
    if "stages" in r:
        st = coq_list(["(%s, %s, %s)" % (coq_bytes(s2b(t)), coq_bytes(s2b(q)), coq_bool(bool(e))) for t, q, e in r["stages"]])
        return "(RDialog %s %s)" % (st, coq_bytes(s2b(r["final"])))
    return "(RPlain %s)" % coq_bytes(s2b(r["out"]))


def op_term(op):
    if op["op"] == "cmd":
        return "(OCmd %s %s)" % (u8(op["cmd"]), coq_bool(op["strip"]))
    if op["op"] == "cmds":
        return "(OCmds %s %s %s)" % (coq_list([u8(c) for c in op["cmds"]]), coq_bool(op["strip"]), coq_bool(bool(op.get("eager"))))
    if op["op"] == "inter":
        evs = coq_list(["(mkEv %s %s %s)" % (u8(e[0]), xpat_term(e[1]), coq_bool(e[2] is True)) for e in op["events"]])
        comp = coq_list([xpat_term(p) for p in (op.get("complete") or [])])
        return "(OInter %s %s)" % (evs, comp)
    return "OPrompt"


def resp_term(raw, proc, failed):
    return "(mkResp %s %s %s)" % (coq_bytes(raw), coq_bytes(proc), coq_bool(failed))


def obs_term(scn, res):
    rs = []
    for op, o in zip(scn["ops"], res["ops"]):
        if o["exc"]:
            break
        if op["op"] == "prompt":
            rs.append("(PPrompt %s)" % u8(o["prompt"]))
            continue
        # the model has no failure markers (failed_when_contains is C13's subject): failed is compared as False
        rr = [resp_term(a, b, False) for (_, a, b) in o["chan"]]
        if op["op"] == "cmd":
            rs.append("(PCmd %s)" % (rr[0] if rr else resp_term(b"", b"", True)))
        elif op["op"] == "cmds":
            rs.append("(PCmds %s)" % coq_list(rr))
        else:
            rs.append("(PInter %s)" % (rr[0] if rr else resp_term(b"", b"", True)))
    starved = any(o["exc"] for o in res["ops"])
    log = coq_list(["(%s, %s)" % (coq_bytes(a), coq_bytes(b)) for a, b in res["log"]])
    ready = bool(res["ops"][-1]["ready"]) if res["ops"] else True
    return "(mkObs %s %d %s %s %s %s)" % (coq_list(rs), 1 if starved else 0, coq_bytes(res["residue"]), log,
                                          coq_bytes(res["written"]), coq_bool(ready))


def scen_term(scn, res):
    return "(mkScen gen_pat_%s %s %s %s %s %s %s %s %s %s)" % (
        scn["kind"], nat(scn.get("depth") or 1000), coq_bytes(scn.get("ret", "\n").encode()),
        coq_bytes(s2b(scn["prompt"])), coq_bytes(s2b(scn.get("nl", "\r\n"))),
        coq_list([reply_term(r) for r in scn["replies"]]), policy_term(scn["policy"]),
        coq_bytes(res.get("residue0", b"")), nat(res.get("delivered0", 0)),
        coq_list([op_term(o) for o in scn["ops"]]))


def case_term(scn, res):
    return "(%s, %s)" % (scen_term(scn, res), obs_term(scn, res))


_RE_TERMS = {}


def re_term(text):
    from gen import regex as rx
    if text not in _RE_TERMS:
        _RE_TERMS[text] = rx.translate(text.encode(), re.M | re.I)[0]
    return _RE_TERMS[text]


def seg_case_term(scn, res):
    """a history with pattern changes as the model takes it: the operations between two changes form a segment that runs under
    the pattern in force (Channel.v run_segs); the observation is that of the operations proper"""
    segs, cur, ops = [], "gen_pat_%s" % scn["kind"], []
    for op in scn["ops"]:
        if op["op"] == "setpat":
            segs.append("(%s, %s)" % (cur, coq_list([op_term(o) for o in ops])))
            cur, ops = re_term(op["pattern"]), []
        else:
            ops.append(op)
    segs.append("(%s, %s)" % (cur, coq_list([op_term(o) for o in ops])))
    keep = [i for i, op in enumerate(scn["ops"]) if op["op"] != "setpat" and i < len(res["ops"])]
    plain = dict(scn, ops=[scn["ops"][i] for i in keep])
    pres = dict(res, ops=[res["ops"][i] for i in keep])
    return "(%s, %s, %s)" % (scen_term(dict(scn, ops=[]), res), coq_list(segs), obs_term(plain, pres))


HEADER_SEG = HEADER + """Definition chk2 (c : scen * list seg * obs) : bool :=
  check_segs gen_ansi gen_ansi_partial gen_hold_scan (fst (fst c)) (snd (fst c)) (snd c).
"""


# ------------------------------------------------------------------------------------------------
# generators
# ------------------------------------------------------------------------------------------------
WORDS = ["show", "version", "ip", "interface", "brief", "running-config", "route", "vrf", "Mgmt", "Ethernet1/1", "lo0",
         "bgp", "summary", "neighbors", "10.0.0.1", "detail", "include", "UP", "Down", "terminal", "length", "0", "|"]
UNI = ["é", "ü", "ß", "Ω", "ж", "中", "€", "ñ"]


def gen_host(rng):
    n = rng.choice([1, 2, 5, 7, 10, 14])
    return rng.choice("abcdefghijklmnopqrstuvwxyz") + "".join(rng.choice("abcdefghijklmnopqrstuvwxyz0123456789-") for _ in range(n - 1)) + rng.choice("0123456789abc")


def gen_prompt(rng, kind):
    host = gen_host(rng)
    if kind == "generic":
        return host + rng.choice(["#", "#", "# ", ">", "> ", "$ ", "#  "])
    p = platform_prompt(kind, host).decode()
    core = p.rstrip(" ")
    if kind in ("cisco_iosxr", "cisco_nxos", "arista_eos", "juniper_junos"):
        return core + rng.choice(["", " ", " "])       # these patterns accept one trailing blank
    return core


def gen_cmd(rng):
    k = rng.random()
    if k < 0.04:
        return ""
    if k < 0.08:
        return rng.choice([" ", "  ", "\t"])
    toks = [rng.choice(WORDS) for _ in range(rng.randint(1, 5))]
    if rng.random() < 0.2:
        toks.insert(rng.randint(0, len(toks)), "".join(rng.choice(UNI) for _ in range(rng.randint(1, 3))))
    if rng.random() < 0.15:
        toks.append(rng.choice(["#", "x>", "a:b", "[1]", "~", "50%", "$v", "{m}"]))   # any character may be typed
    s = (rng.choice(["  ", "\t", " "]) if rng.random() < 0.2 else " ").join(toks)
    if rng.random() < 0.15:
        s = rng.choice([" ", "  "]) + s
    if rng.random() < 0.25:
        s = s + rng.choice([" ", "  ", "\t", " \t "])
    if rng.random() < 0.05:
        s = s + " " + "".join(rng.choice("abcdefghijklmnopqrstuvwxyz0123456789") for _ in range(rng.choice([200, 990, 1100])))
    return s


def gen_line(rng, n, alphabet):
    """a line of exactly n bytes: words of the alphabet separated by blanks, maybe trailing blanks"""
    out = bytearray()
    while len(out) < n:
        w = rng.randint(1, 9)
        out += bytes(rng.choice(alphabet) for _ in range(w))
        if len(out) < n:
            out += b" " * rng.choice([1, 1, 1, 2])
    return bytes(out[:n])


def gen_output(rng, total, alphabet=SAFE, long_lines=False):
    """exactly `total` bytes of text: lines of varied length, blank lines, leading/trailing blank lines and blanks"""
    if total <= 0:
        return b""
    out = bytearray()
    if rng.random() < 0.12:
        out += b"\n" * rng.randint(1, 2)
    while len(out) < total:
        k = rng.random()
        if k < 0.08:
            line = b""
        elif k < 0.16:
            line = b" " * rng.randint(1, 3) + gen_line(rng, rng.randint(1, 30), alphabet)
        elif long_lines and k < 0.3:
            line = gen_line(rng, rng.choice([998, 999, 1000, 1001, 1500]), alphabet)
        else:
            line = gen_line(rng, rng.choice([1, 3, 12, 40, 79, 80, 132]), alphabet)
        out += line + b"\n"
    out = bytes(out[:total])
    if rng.random() < 0.7:
        out = out.rstrip(b"\n") + (b"" if rng.random() < 0.8 else b"\n")
    return out.ljust(total, b"x") if len(out) < total and rng.random() < 0.5 else out


def gen_size(rng, plen, depth, big_ok):
    k = rng.random()
    if k < 0.12:
        return 0
    if k < 0.3:
        return rng.randint(1, 30)
    if k < 0.4:
        return max(0, plen + rng.randint(-2, 2))
    if k < 0.7:
        return max(0, depth - plen - 2 + rng.randint(-2, 6))      # total of "\n" + body + prompt around the window
    if k < 0.85 or not big_ok:
        return rng.randint(30, 400)
    return rng.choice([1500, 2000, 3000, 5000]) + rng.randint(0, 40)


def policy_cost(policy, scn_texts, depth, kind):
    """rough cost of evaluating the model: reads x bytes searched per read (the Junos pattern backtracks most)"""
    total = sum(len(t) + 40 for t in scn_texts) + 1
    k = policy[0]
    avg = {"whole": total, "blank": 60, "lines": 40}.get(k)
    if k == "bytes":
        avg = policy[1]
    elif k == "takes":
        avg = sum(policy[1]) / len(policy[1])
    elif k == "tail":
        avg = total / (len(scn_texts) * (policy[1] + 1) + 1)
    reads = total / max(1.0, min(avg, total))
    window = min(depth, max([len(t) for t in scn_texts] + [1]))
    return reads * window * {"juniper_junos": 3.0, "generic": 1.5}.get(kind, 1.0)


def gen_policy(rng, big, plen=10):
    k = rng.random()
    small = [1, 2, 3, 5, 7]
    if k < 0.12:
        return ["whole"]
    if k < 0.24:
        return ["blank"]
    if k < 0.33:
        return ["lines"]
    if k < 0.43:
        return ["tail", rng.choice([1, 2, plen, plen + 1, plen + 3, 2 * plen + 8])]
    if k < 0.58:
        return ["bytes", rng.choice([37, 64, 999, 1000, 1001] if big else small + [16, 64])]
    n = rng.randint(2, 9)
    pool = ([1, 2, 40, 100, 500, 997, 1000, 1003, 2500] if big else small + [1, 1, 2, 11, 30, 200])
    takes = [rng.choice(pool) for _ in range(n)]
    if big and sum(1 for t in takes if t < 30) > 2:
        takes = [t if t >= 30 else t + 60 for t in takes]
    return ["takes", takes]


def gen_policy_for(rng, scn, budget=60000.0):
    """a chunk policy whose estimated evaluation cost stays within budget: fine-grained reads for small histories,
    coarse ones (and the fine-grained tail) for long outputs"""
    texts = stage_texts(scn)
    plen = len(scn["prompt"])
    for attempt in range(12):
        pol = gen_policy(rng, attempt >= 4, plen)
        if policy_cost(pol, texts, scn["depth"], scn["kind"]) <= budget:
            return pol
    return rng.choice([["whole"], ["tail", plen + 2], ["bytes", 1000], ["bytes", 999]])


def gen_dialogue(rng, prompt_core, early=False, big=False):
    """(events, reply) of a send_interactive whose expected responses are literals that occur once, at the end of each question"""
    n = rng.choice([1, 2, 2, 3])
    qs = [("Proceed? [y/n] ", "Proceed?" if early else "[y/n]"), ("Destination filename [startup-config]? ", "[startup-config]?"),
          ("Password: ", "Password:"), ("Confirm [confirm]", "[confirm]"), ("Enter value = ", "value =")]
    rng.shuffle(qs)
    cmd = " ".join(rng.choice(WORDS) for _ in range(rng.randint(1, 3))) or "clear"
    events, stages = [], []
    inp = cmd
    hidden_prev = False
    for j in range(n - 1):
        q, lit = qs[j]
        echo = not (lit == "Password:") and rng.random() < 0.8
        text = "" if rng.random() < 0.5 else b2s(gen_output(rng, rng.choice([4200, 5000, 990]) if big and rng.random() < 0.6 else rng.randint(1, 60)))
        events.append([inp, lit, True if hidden_prev else rng.choice([False, None])])
        stages.append([text, q if rng.random() < 0.8 else q.rstrip(" "), echo])
        hidden_prev = not echo
        inp = rng.choice(["y", "yes", "secret1", "flash", "42", ""]) if echo else "s3cr3t"
    final = "" if rng.random() < 0.3 else b2s(gen_output(rng, rng.choice([980, 1500, 4300]) if big and rng.random() < 0.5 else rng.randint(1, 80)))
    events.append([inp, prompt_core, True if hidden_prev else rng.choice([False, None])])
    return events, {"stages": stages, "final": final}


def gen_scenario(rng, kind=None, stack=None, big_ok=True, nops=None):
    kind = kind or rng.choice(KINDS)
    stack = stack or rng.choice(["sync", "async"])
    prompt = gen_prompt(rng, kind)
    core = prompt.rstrip(" ")
    depth = rng.choice([1000] * 6 + [64, 200, len(prompt) + 1, len(prompt) + 3])
    nops = nops or rng.choice([2, 2, 3, 3, 4, 5, 6])
    big = big_ok and depth == 1000 and rng.random() < 0.22
    ops, replies = [], []

    def reply_for(cmd):
        if cmd.encode().strip(WS):
            size = gen_size(rng, len(prompt), depth, big)
            mode = rng.random()
            alphabet = SAFE if mode < 0.8 or mode >= 0.9 else SAFE + bytes([0xe9, 0xfc, 0xc3, 0xa9, 0x80, 0xff])
            o = gen_output(rng, size, alphabet, long_lines=big and rng.random() < 0.3)
            if mode >= 0.9 and len(o) > 8:
                # valid multi-byte UTF-8 in the output (Response.result is the decoded text)
                for _ in range(rng.randint(1, 3)):
                    u = rng.choice(["é", "ü", "中文", "€", "Ω"]).encode("utf-8")
                    pos = rng.randint(0, len(o) - len(u))
                    if b"\n" not in o[pos:pos + len(u)]:
                        o = o[:pos] + u + o[pos + len(u):]
            replies.append({"out": b2s(o)})

    for _ in range(nops):
        k = rng.random()
        n0 = len(replies)
        if k < 0.5:
            c = gen_cmd(rng)
            ops.append({"op": "cmd", "cmd": c, "strip": rng.random() < 0.65})
            reply_for(c)
        elif k < 0.68:
            cs = [gen_cmd(rng) for _ in range(rng.choice([0, 1, 2, 2, 3, 4]))]
            ops.append({"op": "cmds", "cmds": cs, "strip": rng.random() < 0.65, "eager": False})
            for c in cs:
                reply_for(c)
        elif k < 0.84 and depth >= 64:
            evs, rep = gen_dialogue(rng, core, big=depth == 1000 and rng.random() < 0.3)
            ops.append({"op": "inter", "events": evs, "complete": None})
            replies.append(rep)
        else:
            ops.append({"op": "prompt"})
        ops[-1]["nrep"] = len(replies) - n0
    scn = {"kind": kind, "stack": stack, "prompt": prompt, "nl": rng.choice(["\r\n"] * 4 + ["\n"]),
           "ret": rng.choice(["\n", "\n", "\r\n"]), "depth": depth, "policy": ["whole"],
           "replies": replies, "ops": ops}
    scn["policy"] = gen_policy_for(rng, scn)
    return scn


def total_bytes(scn):
    return sum(len(t) for t in stage_texts(scn))


def with_nrep(scn):
    """fill op["nrep"] (device replies consumed per op) for hand-written scenarios"""
    for op in scn["ops"]:
        if "nrep" in op:
            continue
        if op["op"] == "cmd":
            op["nrep"] = 1 if op["cmd"].encode().strip(WS) else 0
        elif op["op"] == "cmds":
            op["nrep"] = sum(1 for c in op["cmds"] if c.encode().strip(WS))
        elif op["op"] == "inter":
            op["nrep"] = 1
        else:
            op["nrep"] = 0
    return scn


def corpus(rng):
    """boundary shapes, deterministic: outputs that put "\\n" + output + prompt at depth-1 / depth / depth+1 ...,
    lines of 999/1000/1001 bytes, every kind, both stacks, the chunkings that matter"""
    out = []
    pols = [["whole"], ["bytes", 1000], ["blank"], ["bytes", 999], ["lines"], ["takes", [1000, 1, 1, 500]], ["bytes", 1001]]
    for i, kind in enumerate(KINDS):
        prompt = {"generic": "router1# ", "network": "router1#", "cisco_iosxe": "router1#", "cisco_iosxr": "RP/0/RP0/CPU0:router1#",
                  "cisco_nxos": "switch1# ", "arista_eos": "switch1#", "juniper_junos": "admin@vmx1> "}[kind]
        sizes = [1000 - len(prompt) - 2 + dlt for dlt in (-1, 0, 1, 2)]
        ops, replies = [], []
        for j, sz in enumerate(sizes):
            ops.append({"op": "cmd", "cmd": "show thing %d" % j, "strip": j % 2 == 0})
            replies.append({"out": b2s(gen_output(rng, sz))})
        ops.append({"op": "cmd", "cmd": "show long lines ", "strip": True})
        replies.append({"out": b2s(b"\n".join(gen_line(rng, n, SAFE) for n in (998, 999, 1000, 1001, 5)))})
        ops.append({"op": "prompt"})
        out.append(with_nrep({"kind": kind, "stack": "sync" if i % 2 else "async", "prompt": prompt, "nl": "\r\n", "ret": "\n",
                              "depth": 1000, "policy": pols[i % len(pols)], "replies": replies, "ops": ops}))
    # the drop-first-partial-line rule (see window_cut_scenario)
    for i, kind in enumerate(["generic", "cisco_iosxe", "juniper_junos"]):
        prompt = {"generic": "r1#", "cisco_iosxe": "r1#", "juniper_junos": "a@r1> "}[kind]
        base = {"kind": kind, "stack": "async" if i % 2 else "sync", "prompt": prompt, "nl": "\r\n", "ret": "\n"}
        base.update(window_cut_scenario(rng, kind, prompt))
        out.append(with_nrep(base))
    # dialogues whose texts are several kB (the answers are typed after kilobytes have accumulated), echoed and hidden answers
    for i, (kind, prompt) in enumerate([("generic", "router1#"), ("cisco_nxos", "switch1# "), ("juniper_junos", "admin@vmx1> "), ("cisco_iosxe", "router1#")]):
        out.append(with_nrep({"kind": kind, "stack": "sync" if i % 2 == 0 else "async", "prompt": prompt, "nl": "\r\n", "ret": "\n", "depth": 1000,
                              "policy": [["takes", [700, 3, 1500, 1]], ["tail", 14], ["lines"], ["bytes", 1000]][i],
                              "replies": [{"stages": [[b2s(gen_output(rng, 4300 + 100 * i)), "Overwrite? [y/n] ", True],
                                                      [b2s(gen_output(rng, 990)), "Password: ", False],
                                                      ["", "Really? [confirm]", True]],
                                           "final": b2s(gen_output(rng, 1200))}, {"out": "after"}],
                              "ops": [{"op": "inter", "events": [["copy big file", "[y/n]", False], ["y", "Password:", None], ["s3cr3t", "[confirm]", True],
                                                                  ["yes", prompt.rstrip(" "), False]], "complete": None},
                                      {"op": "cmd", "cmd": "show after", "strip": True}]}))
    # the Example of props/C01.v, on the real driver
    line = "GigabitEthernet0/%02d is up, line protocol is up   "
    out1 = "\n".join(line % i for i in range(22)) + "\n  (22 interfaces)"
    for stack in ("sync", "async"):
        out.append(with_nrep({"kind": "generic", "stack": stack, "prompt": "router1# ", "nl": "\r\n", "ret": "\n", "depth": 1000,
                              "policy": ["takes", [7, 300, 1, 64, 999]],
                              "replies": [{"out": out1}, {"out": ""}, {"stages": [["", "Clear logging buffer [confirm] ", True]], "final": "done"},
                                          {"out": out1}],
                              "ops": [{"op": "cmd", "cmd": "show  Interfaces ", "strip": True}, {"op": "prompt"},
                                      {"op": "cmd", "cmd": "show clock", "strip": False},
                                      {"op": "inter", "events": [["clear logging", "[confirm]", False], ["y", "router1#", False]], "complete": None},
                                      {"op": "cmds", "cmds": ["show  Interfaces "], "strip": False, "eager": False}]}))
    return out


ESCS = [b"\x1b[0m", b"\x1b[1;32m", b"\x1b[K", b"\x1b[2J", b"\x1b7", b"\x1b8", b"\x1b]0;title\x07", b"\x1b[?25h", b"\x1b[7\x1b["]


def gen_edge(rng):
    """outside (or at the edge of) the property's domain: model-vs-implementation, and the oracle only where the exact
    domain check passes.  Prompt-like text in outputs, eager mode, completion patterns, expected responses that do
    not end the question or are regular expressions, escape sequences, backspaces, prompts whose prefix is a prompt."""
    scn = gen_scenario(rng, big_ok=False, nops=rng.choice([1, 2, 3]))
    scn["depth"] = rng.choice([1000, 1000, 64, 200])
    if len(scn["prompt"]) + 1 > scn["depth"]:
        scn["depth"] = 1000
    kind = rng.choice(["risky", "risky", "eager", "complete", "early", "regex", "esc", "esc", "bs", "prefix-prompt", "longline",
                       "window-cut", "window-cut"])
    scn["edge"] = kind
    core = scn["prompt"].rstrip(" ")
    if kind == "risky":
        alphabet = SAFE + b"#>$%:]@~" * 2
        for r in scn["replies"]:
            if "out" in r and r["out"]:
                r["out"] = b2s(gen_output(rng, min(len(r["out"]), 300), alphabet))
    elif kind == "eager":
        cs = [gen_cmd(rng).strip() or "x" for _ in range(rng.randint(2, 4))]
        scn["ops"] = [{"op": "cmds", "cmds": cs, "strip": rng.random() < 0.5, "eager": True, "nrep": len(cs)}]
        scn["replies"] = [{"out": b2s(gen_output(rng, rng.randint(0, 60)))} for _ in cs]
    elif kind == "complete":
        # "enable" on a device that does not ask for the password: the completion pattern ends the interaction
        asks = rng.random() < 0.5
        evs = [["enable", "Password:", False], ["s3cr3t", core, True]]
        rep = {"stages": [["", "Password: ", False]], "final": ""} if asks else {"out": b2s(gen_output(rng, rng.randint(0, 20)))}
        scn["ops"] = [{"op": "inter", "events": evs, "complete": [core], "nrep": 1}, {"op": "prompt", "nrep": 0}]
        scn["replies"] = [rep]
    elif kind in ("early", "regex"):
        evs, rep = gen_dialogue(rng, core, early=True)
        if kind == "regex":
            for ev, st in zip(evs, rep["stages"]):
                ev[1] = "^.*" + re.escape(st[1].rstrip(" ")) + r"\s?$"
            if rng.random() < 0.5:
                evs[-1][1] = ""
        scn["ops"] = [{"op": "inter", "events": evs, "complete": None, "nrep": 1}, {"op": "cmd", "cmd": "show x", "strip": True, "nrep": 1}]
        scn["replies"] = [rep, {"out": "after"}]
    elif kind == "esc":
        for r in scn["replies"]:
            if "out" in r:
                o = bytearray(s2b(r["out"])[:200] or b"text")
                for _ in range(rng.randint(1, 4)):
                    pos = rng.randint(0, len(o))
                    o[pos:pos] = rng.choice(ESCS)
                r["out"] = b2s(bytes(o))
        scn["policy"] = rng.choice([["bytes", 1], ["bytes", 2], ["bytes", 3], ["takes", [1, 2, 5, 1, 9]], ["whole"], ["lines"]])
    elif kind == "bs":
        scn["ops"] = [{"op": "cmd", "cmd": "sho\x08w version", "strip": True, "nrep": 1}]
        scn["replies"] = [{"out": "v1"}]
    elif kind == "prefix-prompt":
        scn["kind"] = "generic"
        scn["prompt"] = rng.choice(["user@host:~$ ", "a#b#", "x:y>"])
        scn["depth"] = 1000
        scn["ops"] = [{"op": "prompt", "nrep": 0}, {"op": "cmd", "cmd": "ls", "strip": True, "nrep": 1}]
        scn["replies"] = [{"out": "file1"}]
    elif kind == "window-cut":
        scn.update(window_cut_scenario(rng, scn["kind"], scn["prompt"]))
    elif kind == "longline":
        # a line longer than the window whose tail, cut by the window, reads as a generic prompt
        scn["kind"] = "generic"
        scn["depth"] = 64
        scn["ops"] = [{"op": "cmd", "cmd": "show x", "strip": True, "nrep": 1}]
        scn["replies"] = [{"out": "y" * rng.randint(40, 90) + " tail:" + " " * rng.randint(50, 70) + "end"}]
    return scn


def window_cut_scenario(rng, kind, prompt):
    """a complete line that is no prompt ("two words#") followed by more than a window of text: while the buffer grows
    byte by byte the window at some point STARTS at "words#" — the drop-first-partial-line rule is what keeps that
    line tail from being read as a prompt (inside the domain for the code as it is)"""
    depth = rng.choice([64, 64, 200])
    end = {"juniper_junos": ">", "generic": rng.choice("#>")}.get(kind, "#")
    line = "%s %s%s" % (rng.choice(["vlan", "port", "state"]), rng.choice(["brief", "sw1", "abc"]), end)
    out = b2s(gen_output(rng, rng.randint(0, 30))) + ("\n" if rng.random() < 0.5 else "") + line + "\n" + b2s(gen_output(rng, depth + rng.randint(10, 60)))
    return {"depth": depth, "policy": rng.choice([["bytes", 1], ["bytes", 1], ["takes", [1, 2, 1, 3]]]),
            "ops": [{"op": "cmd", "cmd": "show it", "strip": rng.random() < 0.5, "nrep": 1}, {"op": "prompt", "nrep": 0}],
            "replies": [{"out": out}]}


# ------------------------------------------------------------------------------------------------
# focused streams: scenario kinds inside the property's domain that a uniform generator does not reach
# ------------------------------------------------------------------------------------------------
FOCUS_PROMPTS = {"generic": ["router1#", "lab-sw1# ", "host-7>"], "network": ["router1#"], "cisco_iosxe": ["lab-sw1#", "router1#"],
                 "cisco_iosxr": ["RP/0/RP0/CPU0:xr1#"], "cisco_nxos": ["switch1# ", "n9k-1#"], "arista_eos": ["switch1#", "leaf1#"],
                 "juniper_junos": ["admin@vmx1> ", "admin@vmx1>"]}
TAIL_ENDS = {"generic": "#>$~@:]"}
LOWER = "abcdefghijklmnopqrstuvwxyz"


def gen_tail_line(rng, kind):
    """a line that is no prompt as a whole (several words, a comma) whose LAST WORD alone reads as a prompt of the driver's
    pattern ("... queueing strategy:", "... peer router1#", "  Output queue, drops>  ")"""
    end = rng.choice(TAIL_ENDS.get(kind, "#>"))
    word = lambda a, b: "".join(rng.choice(LOWER + "0123456789") for _ in range(rng.randint(a, b)))  # noqa
    tail = rng.choice(LOWER) + word(2, 11) + (rng.choice(["-", "."]) + word(1, 4) if rng.random() < 0.3 else "")
    head = rng.choice(["", "  ", "    "]) + word(2, 9).capitalize() + ", " + " ".join(word(1, 8) for _ in range(rng.randint(0, 3)))
    return (head.rstrip(" ") + " " + tail + end + rng.choice(["", "", " ", "  "])).encode()


def suffix_cut_family(rng, kind, prompt, depth, stack):
    """outputs longer than the search depth all of whose lines END in a prompt-like word, in a family of lengths (a last
    line of k filler bytes, k = 0 .. a line's length) such that the point `depth` bytes before the end of the received text
    visits every offset of a line: no line and no line prefix is a prompt (inside the domain, checked exactly), only line
    SUFFIXES are - which no search may ever see because a search window drops its first partial line."""
    lines, total = [], 0
    while total < depth + 70:
        l = gen_tail_line(rng, kind)
        lines.append(l)
        total += len(l) + 1
    if rng.random() < 0.3:
        lines.insert(rng.randint(0, len(lines)), b"")
    span = max(len(l) for l in lines[:3] + lines[-3:]) + 2
    fam = []
    for k in range(span):
        body = b"\n".join(lines + ([b"=" * k] if k else []))
        fam.append(with_nrep({"kind": kind, "stack": stack, "prompt": prompt, "nl": rng.choice(["\r\n", "\r\n", "\n"]),
                              "ret": rng.choice(["\n", "\n", "\r\n"]), "depth": depth, "focus": "suffix-cut",
                              "policy": rng.choice([["whole"], ["bytes", 1000], ["bytes", 999], ["takes", [997, 3, 500]], ["bytes", 1001]]),
                              "replies": [{"out": b2s(body)}, {"out": "Thu Oct 1 2026 12.00 UTC"}],
                              "ops": [{"op": "cmd", "cmd": "show interface", "strip": rng.random() < 0.85},
                                      {"op": "cmd", "cmd": "show clock", "strip": True}]}))
    return fam


QUESTIONS = [("Proceed? [y/n] ", "[y/n]"), ("Destination filename [startup-config]? ", "[startup-config]?"), ("Password: ", "Password:"),
             ("Confirm [confirm]", "[confirm]"), ("Enter value = ", "value ="), ("Source filename []? ", "Source filename []?"),
             ("Old Password: ", "Old Password:")]
FINE_POLICIES = [["bytes", 1], ["bytes", 1], ["bytes", 2], ["bytes", 3], ["bytes", 7], ["lines"], ["lines"], ["takes", [1, 2, 5, 1, 9]],
                 ["takes", [64, 1]], ["bytes", 64], ["blank"], ["whole"]]


def noise_text(rng, literals, n):
    """a few lines of text in which the given literals occur as ordinary text (a line of their own, or inside a line)"""
    out = []
    for _ in range(n):
        k = rng.random()
        lit = rng.choice(literals) if literals else ""
        if lit and k < 0.45:
            out.append(lit + rng.choice(["", " ", ""]))
        elif lit and k < 0.75:
            out.append(" %s %s %s" % (b2s(gen_line(rng, rng.randint(1, 8), SAFE)), lit, rng.choice(["ok", "accepted", "(again)", ""])))
        else:
            out.append(b2s(gen_line(rng, rng.randint(1, 40), SAFE)))
    return "\n".join(out)


def gen_repeat_dialogue(rng, core, complete=False):
    """a dialogue of 2-5 events in which the TEXT of an expected response occurs again, as ordinary output, while another event
    is waited for (the send_interactive docstring: 'Password:' is asked, and printed again while the copy runs; the same
    question asked twice).  With complete=True the caller lists more events than the device asks questions and names the prompt
    as interaction_complete_patterns (a device that asks for the password once where another release asks twice)."""
    n = rng.choice([2, 3, 3, 4, 5])
    qs = [rng.choice(QUESTIONS) for _ in range(n - 1)]
    for j in range(1, n - 1):
        if rng.random() < (0.6 if complete else 0.35):
            qs[j] = qs[j - 1]                       # the same question twice in a row
    cmd = " ".join(rng.choice(WORDS) for _ in range(rng.randint(1, 3)))
    asked = n - 1
    if complete:
        asked = rng.choice([a for a in range(n - 1) if a == 0 or qs[a] == qs[a - 1]] or [rng.randint(0, n - 2)]) if rng.random() < 0.7 \
            else rng.randint(0, n - 1)
    events, stages, inp, hidden_prev = [], [], cmd, False
    for j in range(n - 1):
        q, lit = qs[j]
        echo = not lit.endswith("Password:") and rng.random() < 0.8
        others = [l for _, l in qs if l != lit and lit not in l]
        text = noise_text(rng, others[:j + 1] if rng.random() < 0.8 else others, rng.randint(0, 3)) if rng.random() < 0.6 else ""
        events.append([inp, lit, True if hidden_prev else rng.choice([False, None])])
        stages.append([text, q if rng.random() < 0.8 else q.rstrip(" "), echo])
        hidden_prev = not echo
        inp = rng.choice(["y", "yes", "secret1", "flash:", "42", ""]) if echo else "s3cr3t"
    events.append([inp, core, True if hidden_prev else rng.choice([False, None])])
    stages = stages[:asked]
    # what the device prints once the dialogue is over: the earlier expected responses again, then more text
    lits = [l for _, l in qs[:max(asked, 1)]] or ["Password:"]
    if asked < n - 1:
        lits = [l for l in lits if qs[asked][1] not in l] if rng.random() < 0.85 else lits
    k = rng.random()
    final = noise_text(rng, lits, rng.randint(1, 4)) + "\n" + noise_text(rng, [], rng.randint(1, 3)) if k < 0.8 else \
        (b2s(gen_output(rng, rng.choice([1100, 1500]))) if k < 0.9 else "")
    comp = None
    if complete:
        comp = [rng.choice([core, "^" + re.escape(core) + r"\s?$"])]
    return events, {"stages": stages, "final": final}, comp


def repeat_dialogue_scenario(rng, kind, stack, complete=False):
    prompt = rng.choice(FOCUS_PROMPTS[kind])
    evs, rep, comp = gen_repeat_dialogue(rng, prompt.rstrip(" "), complete)
    ops = [{"op": "inter", "events": evs, "complete": comp}, {"op": "cmd", "cmd": "show clock", "strip": rng.random() < 0.7}]
    replies = [rep, {"out": "Thu Oct 1 2026 12.00 UTC"}]
    if rng.random() < 0.3:
        ops.insert(0, {"op": "cmd", "cmd": "show users", "strip": True})
        replies.insert(0, {"out": b2s(gen_output(rng, rng.randint(0, 40)))})
    if rng.random() < 0.3:
        ops.append({"op": "prompt"})
    return with_nrep({"kind": kind, "stack": stack, "prompt": prompt, "nl": rng.choice(["\r\n", "\r\n", "\n"]), "ret": rng.choice(["\n", "\n", "\r\n"]),
                      "depth": rng.choice([1000, 1000, 1000, 200]), "policy": rng.choice(FINE_POLICIES),
                      "focus": "complete-dialogue" if complete else "repeat-dialogue", "replies": replies, "ops": ops})


def docstring_dialogue(stack, policy, ret, asks_twice=True, complete=False):
    """the example of the send_inputs_interact docstring ('copy flash: scp:'): 'Password:' is asked for and is printed
    again while the copy runs; with complete=True the caller lists the password twice (some releases ask twice) and gives
    the prompt as interaction_complete_patterns"""
    prompt = "lab-sw1#"
    copied = " Sink: C0644 639 test1.txt\n!\n639 bytes copied in 12.066 secs (53 bytes/sec)"
    stages = [["", "Source filename []? ", True], ["", "Address or name of remote host []? ", True], ["", "Destination username [carl]? ", True],
              ["Writing test1.txt", "Password: ", False]]
    evs = [["copy flash: scp:", "Source filename []?", False], ["test1.txt", "Address or name of remote host []?", False],
           ["172.31.254.100", "Destination username [carl]?", False], ["carl", "Password:", False]]
    if complete:
        evs += [["hunter2", "Password:", True], ["hunter2", prompt, True]]
        if asks_twice:
            stages.append(["", "Password: ", False])
        final = copied
    else:
        evs.append(["hunter2", prompt, True])
        final = "\nPassword:\n" + copied
    return with_nrep({"kind": "generic", "stack": stack, "prompt": prompt, "nl": "\r\n", "ret": ret, "depth": 1000, "policy": policy,
                      "focus": "complete-dialogue" if complete else "repeat-dialogue",
                      "replies": [{"stages": stages, "final": final}, {"out": "Thu Oct 1 2026 12.00 UTC"}],
                      "ops": [{"op": "inter", "events": evs, "complete": ["^lab-sw1#$"] if complete else None},
                              {"op": "cmd", "cmd": "show clock", "strip": True}]})


BANNERS = ["{master:0}", "{backup:1}", "{master}", "{primary:node0}", "{linecard:2}"]


def multiline_prompt_scenario(rng, stack):
    """a prompt of the driver's own pattern that spans two lines: the Junos routing-engine banner line in front of user@host>"""
    prompt = rng.choice(BANNERS) + "\n" + "%s@%s>" % (rng.choice(["admin", "user", "ops-1"]), gen_host(rng)) + rng.choice(["", " "])
    scn = gen_scenario(rng, kind="juniper_junos", stack=stack, big_ok=False, nops=rng.choice([2, 3, 4]))
    scn["prompt"] = prompt
    scn["depth"] = rng.choice([1000, 1000, 200, 64])
    for op in scn["ops"]:
        if op["op"] == "inter":                    # the last event waits for the prompt, as a literal
            op["events"][-1][1] = prompt.rstrip(" ") if rng.random() < 0.5 else prompt.rstrip(" ").split("\n")[1]
        if op["op"] in ("cmd", "cmds"):
            op["strip"] = rng.random() < 0.8
    scn["policy"] = rng.choice(FINE_POLICIES + [["tail", 3], ["tail", len(prompt) + 1], ["bytes", 12]])
    scn["focus"] = "multiline-prompt"
    return scn


# UTF-8 characters whose LAST byte is 0x9b / 0x9d: ordinary continuation bytes that, as single bytes, are the 8-bit CSI /
# OSC codes the ANSI pattern also starts at (Cyrillic El / En, s acute, U-circumflex, CJK 4F9B / 601D, two emoji ...)
C9 = {0x9b: ["Л", "ś", "供", "Û", "\U0001f61b", "ě", "қ"],
      0x9d: ["Н", "思", "Ý", "\U0001f61d", "ĝ", "ҝ"]}
# everything an ANSI pattern could consume after such a byte: (kind, text that starts with it)
CSI_FOLLOW = [("7", "7 razy"), ("8", "8 ports"), ("M", "MTU 1500"), ("E", "Ethernet1/1"), ("[..m", "[0m ok"), ("[..m", "[1;32m ok"),
              ("[..final", "[K rest"), ("[..final", "[lab] x"), ("[..final", "[12 34 x"), ("[..final", "[?25h z"), ("[ only", "[ 12 34"),
              ("]..BEL", "]0;title\x07 t"), ("]..BEL", "]2 a b\x07"), ("] no BEL", "]0;title t")]
CSI_WS = ["", " ", "\t", "\n"]
CSI_WHERE = ["cmd-out", "cmds-out", "inter-out", "cmd-echo", "cmds-echo", "inter-echo"]
CSI_INTERIOR = [["whole"], ["bytes", 1000], ["bytes", 16], ["lines"], ["blank"], ["takes", [64, 1]]]
CSI_STRADDLE = [["bytes", 1], ["bytes", 2], ["bytes", 3], ["takes", [1, 2, 5, 1, 9]], ["bytes", 7]]
CSI_PAIR = re.compile(rb"[\x9b\x9d]\s?(?:[78ME\[]|\]\d)")


def u8s(text):
    """a str of text as the latin-1 carrier of its UTF-8 bytes (how device texts are written in a scenario)"""
    return b2s(text.encode("utf-8"))


def csi_phrase(rng, byte, ws, follow):
    """some UTF-8 word ending in a character whose last byte is `byte`, then `ws`, then the follower text"""
    word = "".join(rng.choice(["В", "А", "д", "é", "中", "x", "ü"]) for _ in range(rng.randint(0, 3)))
    return word + rng.choice(C9[byte]) + ws + follow


def csi_text(rng, byte, ws, follow, nlines=None):
    """a few lines of UTF-8 text (no ESC, no CR), every line opened by two plain words (so that no line and no line prefix
    reads as a prompt of any driver), one or two of them holding the phrase"""
    plain = ["Vlan name default", "Port état 中文 ok", "  uplink ü 10G", "", "total 2 … done", "Имя порта да"]
    lines = [rng.choice(plain) for _ in range(rng.randint(0, 2) if nlines is None else nlines)]
    for _ in range(rng.choice([1, 1, 2])):
        line = rng.choice(["Vlan name ", "Gi0/1 desc ", "  port alias "]) + csi_phrase(rng, byte, ws, follow) + rng.choice(["", " up", "  "])
        lines.insert(rng.randint(0, len(lines)), line)
    return "\n".join(lines)


def csi_scenario(rng, byte, ws, follow, where, policy, stack):
    """one history in which the phrase occurs where `where` says (a command's output, the outputs of send_commands, the texts of
    a dialogue; the echo of a command, of one of several commands, of the first line and of an answer of a dialogue), followed by
    a plain command that must again return exactly its own output"""
    for attempt in range(12):
        kind = rng.choice(KINDS)
        prompt = rng.choice(FOCUS_PROMPTS[kind])
        core = prompt.rstrip(" ")
        wse = ws if ws != "\n" else rng.choice(["", " ", "\t"])       # no newline inside a command
        text = lambda n=None: u8s(csi_text(rng, byte, ws, follow, n))   # noqa
        typed = lambda: rng.choice(["show vlan name ", "conf desc ", "ping "]) + csi_phrase(rng, byte, wse, follow.rstrip(" "))  # noqa
        plain_out = u8s(rng.choice(["ok", "Vlan name default\n  uplink ü 10G", ""]))
        if where == "cmd-out":
            ops, replies = [{"op": "cmd", "cmd": "show vlan", "strip": rng.random() < 0.7}], [{"out": text()}]
        elif where == "cmds-out":
            ops = [{"op": "cmds", "cmds": ["show vlan", "show  vlan brief "], "strip": rng.random() < 0.7, "eager": False}]
            replies = [{"out": text()}, {"out": text(0)}]
        elif where == "cmd-echo":
            ops, replies = [{"op": "cmd", "cmd": typed(), "strip": rng.random() < 0.7}], [{"out": plain_out}]
        elif where == "cmds-echo":
            ops = [{"op": "cmds", "cmds": [typed(), "show x", typed()], "strip": rng.random() < 0.7, "eager": False}]
            replies = [{"out": plain_out}, {"out": "x"}, {"out": text(0) if rng.random() < 0.5 else "y"}]
        else:
            q, lit = rng.choice(QUESTIONS[:2] + QUESTIONS[3:6])
            echoed = where == "inter-echo"
            first = typed() if echoed else "copy run start"
            answer = csi_phrase(rng, byte, wse, follow.rstrip(" ")) if echoed else "y"
            stage_text = (plain_out if rng.random() < 0.5 else "") if echoed else text(0)
            final = plain_out if echoed else text()
            ops = [{"op": "inter", "events": [[first, lit, rng.choice([False, None])], [answer, core, rng.choice([False, None])]], "complete": None}]
            replies = [{"stages": [[stage_text, q, True]], "final": final}]
        ops.append({"op": "cmd", "cmd": "show clock", "strip": True})
        replies.append({"out": "Thu Oct 1 2026 12.00 UTC"})
        scn = with_nrep({"kind": kind, "stack": stack, "prompt": prompt, "nl": rng.choice(["\r\n", "\r\n", "\n"]), "ret": rng.choice(["\n", "\n", "\r\n"]),
                         "depth": rng.choice([1000, 1000, 1000, 200]), "policy": policy, "focus": "utf8-9b9d",
                         "csi": ["%02x" % byte, follow.split(" ")[0][:3] if follow[0] in "[]" else follow[0], repr(ws), where],
                         "replies": replies, "ops": ops})
        if in_domain(scn, exact=True):
            break
    return scn


def csi_family(rng, thorough):
    """for each of the two bytes x every follower x white space in between (none, blank, tab, newline): a scenario per place, under a
    policy that keeps the pair inside one read and under one that cuts between the two bytes"""
    out, n = [], 0
    sure = {}      # (byte, follower, output / echo) -> [seen under a policy that surely keeps the pair in one read, .. surely cuts it]
    for byte in (0x9b, 0x9d):
        for fi, (fkind, follow) in enumerate(CSI_FOLLOW):
            for wi, ws in enumerate(CSI_WS):
                wheres = CSI_WHERE if thorough else [CSI_WHERE[(fi + wi + k) % len(CSI_WHERE)] for k in (0, 3, 4 + (fi % 2))]
                for where in wheres:
                    if ws == "\n" and where.endswith("echo") and not thorough:
                        continue
                    for pol in (CSI_INTERIOR[n % len(CSI_INTERIOR)], CSI_STRADDLE[n % len(CSI_STRADDLE)]):
                        out.append(csi_scenario(rng, byte, ws, follow, where, pol, ["sync", "async"][n % 2]))
                        n += 1
                        got = sure.setdefault((byte, follow, where.split("-")[1]), [False, False])
                        got[0] |= pol in (["whole"], ["bytes", 1000], ["lines"])
                        got[1] |= pol == ["bytes", 1]
    for (byte, follow, place), got in sorted(sure.items()):
        for pol, have in ((["whole"], got[0]), (["bytes", 1], got[1])):
            if not have:
                where = rng.choice([w for w in CSI_WHERE if w.endswith(place)])
                out.append(csi_scenario(rng, byte, rng.choice(CSI_WS[:3]), follow, where, pol, ["sync", "async"][len(out) % 2]))
    return out


def csi_positions(scn, res):
    """(pairs inside one read, pairs cut by a read boundary) of the 9b/9d + follower pairs in what the transport handed out"""
    chunks = [c.replace(b"\r", b"") for c in res.get("chunks", [])]
    inside = sum(len(CSI_PAIR.findall(c)) for c in chunks)
    return inside, len(CSI_PAIR.findall(b"".join(chunks))) - inside


def long_echo_family(rng, thorough):
    """commands of 20 .. 1100 non-blank characters whose echo arrives in several reads, with read boundaries after 16, 64, 128, 256,
    512, 1000 .. characters of the echo: the return may only be sent once the WHOLE echo was read, whatever its length"""
    out = []
    lens = [20, 65, 100, 127, 129, 140, 200, 257, 300, 513, 1030]
    for i, n in enumerate(lens if thorough else lens[::2] + [129, 257]):
        for j in range(3 if thorough else 2):
            kind = rng.choice(KINDS)
            prompt = rng.choice(FOCUS_PROMPTS[kind])
            words, total = [], 0
            while total < n:
                w = "".join(rng.choice(LOWER + "0123456789|()/-.") for _ in range(min(n - total, rng.randint(1, 24))))
                words.append(w)
                total += len(w)
            cmd = "show log | include " + rng.choice([" ", "  "]).join(words)
            nb = len("".join(cmd.split()))
            pol = [["bytes", 1], ["bytes", 7], ["takes", [nb - rng.randint(1, min(nb - 1, 90)), 1, 3]], ["bytes", rng.choice([16, 64, 128, 130])],
                   ["tail", 3]][(i + j) % 5]
            ops = [{"op": "cmd", "cmd": cmd, "strip": rng.random() < 0.7}, {"op": "cmd", "cmd": "show clock", "strip": True}]
            if j == 1:
                ops[0] = {"op": "cmds", "cmds": ["show x", cmd], "strip": rng.random() < 0.7, "eager": False}
            replies = ([{"out": "x"}] if j == 1 else []) + [{"out": b2s(gen_output(rng, rng.randint(0, 60)))}, {"out": "Thu Oct 1 2026 12.00 UTC"}]
            out.append(with_nrep({"kind": kind, "stack": ["sync", "async"][(i + j) % 2], "prompt": prompt, "nl": rng.choice(["\r\n", "\r\n", "\n"]),
                                  "ret": rng.choice(["\n", "\n", "\r\n"]), "depth": 1000, "policy": pol, "focus": "long-echo",
                                  "replies": replies, "ops": ops}))
    return out


# lines a loose prompt pattern reads as a prompt and a narrower one does not (and the other way round)
TEMPTING = ["RX>", "TX>", "Totals:", "Summary:", "vlan#", "core-sw2#", "edge1>", "user@host$", "[edit]", "flags:", "ops@", "a~", "sw1(config)#",
            "sw1(config-if)#", "root@re0%", "r2(tcl)#", "+>", ">", "lab#", "Gi0/1:", "spine-1.lab>", "{master:0}", "bash-5.1$", "vlan 10#"]
_LEVELS = {}


def level_patterns(kind):
    """(name, pattern) of the privilege levels of a constructed driver of that kind, in the driver's order"""
    if kind not in _LEVELS:
        from gen import gen_channel
        d = gen_channel._driver(kind, True)
        _LEVELS[kind] = [(n, l.pattern) for n, l in d.privilege_levels.items()]
    return list(_LEVELS[kind])


def joined_levels(levels):
    """the prompt pattern of a network driver: any of its levels' patterns (update_privilege_levels)"""
    return "|".join("(%s)" % p for _, p in levels)


def narrowed_patterns(rng, core):
    """prompt patterns a user may set on an open connection, all of which read the device's prompt `core` as a prompt: this
    host in this mode only; this host in either mode; any host, this prompt character only; the loose default minus $ ~ @ : ];
    this host, exec or configuration mode"""
    host, end = re.escape(core[:-1]), re.escape(core[-1])
    pats = ["^" + re.escape(core) + r"\s*$", "^" + host + r"[#>]\s?$", r"^[a-z0-9.\-@()/:]{1,48}" + end + r"\s*$", r"^\S{0,48}[#>]\s*$",
            "^(?:" + re.escape(core) + "|" + host + r"\(config[a-z\-]{0,16}\)#)\s?$", r"^[\w.\-@/:]{1,63}" + end + r"\s?$"]
    rng.shuffle(pats)
    return pats


def tempting_lines(old, new, core):
    """lines that `old` reads as a prompt and `new` does not"""
    cands = TEMPTING + [core[:-1] + c for c in "#>$:" if core[:-1] + c != core] + [core[:-1] + "(config)#", "x" + core]
    return [l for l in cands if old.search(l.encode()) and not new.search(l.encode())]


def output_with(rng, lines, size):
    """some text in which the given lines occur as complete lines (first, inner, last; sometimes with trailing blanks)"""
    body = [l for l in b2s(gen_output(rng, size)).split("\n")] if size else []
    for l in lines:
        body.insert(rng.choice([0, len(body), rng.randint(0, len(body))]), l + rng.choice(["", "", " ", "  "]))
    return "\n".join(body)


def repattern_scenario(rng, kind, stack, via):
    """a history on ONE open connection in which the user changes the prompt pattern 1-3 times between operations - through the
    driver attribute (conn.comms_prompt_pattern = ...), through the channel's arguments, or by editing privilege level patterns
    and calling update_privilege_levels() - narrowing it, replacing it by another narrow one, restoring the original.  After every
    change the outputs contain lines that the PREVIOUS pattern reads as a prompt and the pattern now in force does not ("RX>",
    "Totals:", "vlan#" ...): they are ordinary text for the operation that prints them"""
    for attempt in range(20):
        prompt = rng.choice(FOCUS_PROMPTS[kind]) if rng.random() < 0.5 else gen_prompt(rng, kind)
        core = prompt.rstrip(" ")
        depth = rng.choice([1000, 1000, 1000, 200, 64])
        if len(prompt) + 1 > depth:
            depth = 1000
        original = pattern_of(kind).pattern.decode()
        levels = level_patterns(kind) if via == "privs" else None
        ops, replies, tempted = [], [], 0
        cur = original

        def plain_ops(n, lines):
            nonlocal tempted
            for i in range(n):
                k = rng.random()
                mine = lines if i == 0 else (lines if rng.random() < 0.4 else [])
                picked = [rng.choice(mine) for _ in range(rng.randint(1, 3))] if mine else []
                tempted += bool(picked)
                out = output_with(rng, picked, rng.choice([0, 0, 12, 40, 150, depth - len(prompt) - 8 if depth < 1000 else 300]))
                if k < 0.6 or i == 0:
                    ops.append({"op": "cmd", "cmd": gen_cmd(rng).strip() or "show counters", "strip": rng.random() < 0.7})
                    replies.append({"out": out})
                elif k < 0.75:
                    ops.append({"op": "cmds", "cmds": ["show one", "show  two "], "strip": rng.random() < 0.7, "eager": False})
                    replies.extend([{"out": out}, {"out": output_with(rng, picked[:1], 20)}])
                elif k < 0.87:
                    evs, r = gen_dialogue(rng, core)
                    r["final"] = out
                    ops.append({"op": "inter", "events": evs, "complete": None})
                    replies.append(r)
                else:
                    ops.append({"op": "prompt"})

        plain_ops(rng.choice([0, 1, 1, 2]), [])
        for change in range(rng.choice([1, 1, 2, 3])):
            if via == "privs":
                if change and rng.random() < 0.4:
                    new_levels = level_patterns(kind)                       # the levels as they were
                else:
                    name, lp = rng.choice(levels)
                    if compiled(lp).search(core.encode()):
                        npat = "^" + re.escape(core) + r"\s?$"            # the current level, pinned to this host
                    else:
                        npat = rng.choice(["^" + re.escape(core[:-1]) + "[>]$", "^" + re.escape(core[:-1]) + r"\(config[\w.\-@/:]{0,32}\)#$",
                                           r"^zz-unused-\d#$"])
                    new_levels = [(n, npat if p == lp else p) for n, p in levels]   # every level that shares the edited pattern
                edit = {n: p for (n, p), (_, p0) in zip(new_levels, levels) if p != p0}
                levels = new_levels
                new = joined_levels(levels)
                if not edit:
                    continue
                ops.append({"op": "setpat", "via": "privs", "levels": edit, "pattern": new})
            else:
                new = original if change and rng.random() < 0.35 else narrowed_patterns(rng, core)[0]
                if new == cur:
                    continue
                ops.append({"op": "setpat", "via": via, "pattern": new})
            plain_ops(rng.choice([1, 1, 2, 3]), tempting_lines(compiled(cur), compiled(new), core))
            cur = new
        if not any(op["op"] == "setpat" for op in ops):
            continue
        if ops[-1]["op"] != "cmd":
            ops.append({"op": "cmd", "cmd": "show clock", "strip": True})
            replies.append({"out": "Thu Oct 1 2026 12.00 UTC"})
        scn = with_nrep({"kind": kind, "stack": stack, "prompt": prompt, "nl": rng.choice(["\r\n", "\r\n", "\n"]), "ret": rng.choice(["\n", "\n", "\r\n"]),
                         "depth": depth, "policy": rng.choice(FINE_POLICIES + [["bytes", 1000], ["tail", 3], ["bytes", 16]]),
                         "focus": "repattern", "via": via, "tempted": tempted, "replies": replies, "ops": ops})
        if tempted and in_domain(scn, exact=True):
            break
    return scn


def repattern_family(rng, thorough):
    """every driver kind x both stacks x every way of changing the pattern (driver attribute, channel arguments, and - network
    drivers - update_privilege_levels() after editing a level pattern), then random ones"""
    out = []
    for rnd in range(3 if thorough else 1):
        for i, kind in enumerate(KINDS):
            for j, via in enumerate(["driver", "args", "privs"]):
                if via == "privs" and kind == "generic":
                    continue
                for stack in ("sync", "async"):
                    out.append(repattern_scenario(rng, kind, stack, via))
    for n in range(160 if thorough else 40):
        kind = rng.choice(KINDS)
        via = rng.choice(["driver", "driver", "args", "privs"] if kind != "generic" else ["driver", "args"])
        out.append(repattern_scenario(rng, kind, ["sync", "async"][n % 2], via))
    return out


# outputs derived from the COMMAND ITSELF: a box that titles its output with the command, `hostname` on a host called
# "hostname", `cat` of a file that holds the line just typed, a device that repeats the answer it was given.  The echo of the
# input was read (and discarded) before the return was sent: whatever the device prints after the return is output, also when
# it reads like the input.
CIO_WORDS = ["show", "clock", "version", "ip", "route", "summary", "Interface", "Ethernet1/1", "running-config", "uptime", "10.0.0.1",
             "detail", "lo0", "BGP", "vrf", "Mgmt", "hostname", "terminal", "length", "0", "|", "include", "UP"]
CIO_SINGLE = ["hostname", "uptime", "pwd", "whoami", "date", "Version"]
CIO_VARIANTS = ["equal", "case", "blanks", "return", "prefix", "suffix", "repeated"]
CIO_PLACES = ["first", "middle", "last", "only"]
CIO_OPS = ["cmd", "cmds", "inter"]


def cio_command(rng):
    """a command of 1-4 words: mixed case, single / double blanks or a tab between the words, sometimes a non-ASCII word,
    sometimes leading / trailing blanks (none of the characters that end a prompt)"""
    if rng.random() < 0.25:
        core = rng.choice(CIO_SINGLE)
    else:
        toks = [rng.choice(CIO_WORDS) for _ in range(rng.randint(2, 4))]
        if rng.random() < 0.15:
            toks.insert(rng.randint(1, len(toks)), "".join(rng.choice(UNI) for _ in range(rng.randint(1, 3))))
        core = (rng.choice(["  ", "\t"]) if rng.random() < 0.15 else " ").join(toks)
    return (rng.choice([" ", "  "]) if rng.random() < 0.1 else "") + core + (rng.choice([" ", "  ", "\t"]) if rng.random() < 0.2 else "")


def cio_lines(rng, cmd, variant):
    """the line(s) a device prints that are derived from the typed text `cmd`"""
    core = cmd.strip()
    if variant == "equal":
        return [core if rng.random() < 0.7 else cmd]
    if variant == "case":
        alts = [x for x in (core.upper(), core.lower(), core.title(), core.swapcase()) if x != core]
        return [rng.choice(alts)] if alts else [core]
    if variant == "blanks":
        words = core.split()
        alts = ["  " + core, "\t" + core, core + "   ", " " + core + " \t"]
        if len(words) > 1:
            alts += ["  ".join(words), "\t".join(words), " ".join(words[:-1]) + "   " + words[-1], " ".join(words)]
        return [rng.choice([a for a in alts if a != core] or alts)]
    if variant == "return":
        # the line, then the return: an empty line follows it (the last line of an output: a trailing newline)
        return [core, ""] if rng.random() < 0.7 else [core, "", ""]
    if variant == "prefix":
        return [core + rng.choice([" (UTC)", ",", " -", " output", ".", "-detail", " = ok", "!", "  |"])]
    if variant == "suffix":
        return [rng.choice(["% ", "output of ", "x", "! ", "-- ", "(", "Invalid input detected at marker ", "'"]) + core]
    if variant == "repeated":
        k = rng.random()
        if k < 0.35:
            return [core, core]
        if k < 0.55:
            return [core, core, core.upper()]
        if k < 0.8:
            return [core + " " + core]
        return [core + core]
    raise ValueError(variant)


def cio_output(rng, cmd, variant, place):
    """an output that holds the derived line(s) as its first / an inner / its last line(s), or as all there is"""
    mine = [u8s(l) for l in cio_lines(rng, cmd, variant)]          # the device prints the UTF-8 bytes of what was typed
    other = lambda: [b2s(gen_line(rng, rng.choice([3, 12, 30, 60]), SAFE)) for _ in range(rng.randint(1, 3))]  # noqa
    if place == "only":
        lines = mine
    elif place == "first":
        lines = ([""] * rng.choice([0, 0, 0, 1, 2])) + mine + other()      # sometimes after blank lines: still the first line of the result
    elif place == "last":
        lines = other() + mine
    else:
        lines = other() + mine + other()
    return "\n".join(lines)


def cio_scenario(rng, kind, stack, opk, variant, place):
    """one history whose device output is derived from what was typed, followed by a plain command.
    cmd: the output of the command.  cmds: the output of one of 2-3 commands holds its own command or (every second time) the
    command sent before / after it.  inter: the text in front of a question is derived from the first line of the dialogue, or
    the final output from the answer (echoed or hidden) - event inputs against event outputs."""
    for attempt in range(25):
        prompt = rng.choice(FOCUS_PROMPTS[kind]) if rng.random() < 0.7 else gen_prompt(rng, kind)
        core = prompt.rstrip(" ")
        sub = None
        if opk == "cmd":
            c = cio_command(rng)
            ops, replies = [{"op": "cmd", "cmd": c, "strip": rng.random() < 0.6}], [{"out": cio_output(rng, c, variant, place)}]
        elif opk == "cmds":
            cs = [cio_command(rng) for _ in range(rng.choice([2, 3]))]
            if len({c.strip().lower() for c in cs}) < len(cs):
                continue
            at = rng.randrange(len(cs))
            sub = rng.choice(["own", "own", "next", "previous"])
            src = at if sub == "own" else (at + 1) % len(cs) if sub == "next" else (at - 1) % len(cs)
            ops = [{"op": "cmds", "cmds": cs, "strip": rng.random() < 0.6, "eager": False}]
            replies = [{"out": cio_output(rng, cs[src], variant, place) if i == at else rng.choice(["", "ok", b2s(gen_output(rng, rng.randint(1, 40)))])}
                       for i in range(len(cs))]
        else:
            q, lit = rng.choice(QUESTIONS[:2] + QUESTIONS[3:6])
            first = cio_command(rng).strip()
            sub = rng.choice(["first-line", "echoed-answer", "hidden-answer"])
            if sub == "hidden-answer":
                q, lit = rng.choice([QUESTIONS[2], QUESTIONS[6]])
            answer = rng.choice(["yes", "confirm", "startup-config", "s3cr3t Pass", "flash0 test1.txt", "Y"])
            hidden = sub == "hidden-answer"
            text = cio_output(rng, first, variant, place) if sub == "first-line" else rng.choice(["", "Building configuration", ""])
            final = cio_output(rng, answer, variant, place) if sub != "first-line" else rng.choice(["", "[OK]", b2s(gen_output(rng, rng.randint(1, 30)))])
            ops = [{"op": "inter", "events": [[first, lit, rng.choice([False, None])], [answer, core, True if hidden else rng.choice([False, None])]],
                    "complete": None}]
            replies = [{"stages": [[text, q if rng.random() < 0.8 else q.rstrip(" "), not hidden]], "final": final}]
        ops.append({"op": "cmd", "cmd": "show clock", "strip": True})
        replies.append({"out": "Thu Oct 1 2026 12.00 UTC"})
        scn = with_nrep({"kind": kind, "stack": stack, "prompt": prompt, "nl": rng.choice(["\r\n", "\r\n", "\n"]), "ret": rng.choice(["\n", "\n", "\r\n"]),
                         "depth": rng.choice([1000, 1000, 1000, 200]), "policy": rng.choice(FINE_POLICIES + [["whole"], ["whole"], ["bytes", 1000]]),
                         "focus": "command-in-output", "cio": [opk, variant, place, sub], "replies": replies, "ops": ops})
        if in_domain(scn, exact=True):
            break
    return scn


def cio_hostname_scenario(rng, kind, stack):
    """`hostname` on a host called "hostname" (the whole output is the command), then the same through send_commands"""
    host = rng.choice(["hostname", "Hostname", "uptime"])
    prompt = "%s#" % host if kind == "generic" else platform_prompt(kind, host).decode()
    return with_nrep({"kind": kind, "stack": stack, "prompt": prompt, "nl": "\r\n", "ret": rng.choice(["\n", "\r\n"]), "depth": 1000,
                      "policy": rng.choice([["whole"], ["lines"], ["bytes", 3]]), "focus": "command-in-output", "cio": ["cmd", "equal", "only", "hostname"],
                      "replies": [{"out": host}, {"out": host.lower() + "\n"}, {"out": "Thu Oct 1 2026 12.00 UTC"}],
                      "ops": [{"op": "cmd", "cmd": host.lower(), "strip": rng.random() < 0.5},
                              {"op": "cmds", "cmds": [host.lower() + " ", "show clock"], "strip": True, "eager": False}]})


def command_in_output_family(rng, thorough):
    """every way of deriving a line from the typed text (equal; equal up to case; up to blanks; followed by a return; the text
    as a prefix / a suffix of a line; repeated) x every place in the output (first, inner, last line, the whole output) x
    send_command / send_commands / send_interactive, spread over all driver kinds and both stacks (each kind sees every operation
    kind, each operation kind every variant and every place)"""
    out, n = [], rng.randrange(14)
    for rnd in range(3 if thorough else 1):
        for variant in CIO_VARIANTS:
            for place in CIO_PLACES:
                for opk in CIO_OPS:
                    out.append(cio_scenario(rng, KINDS[n % 7], ["sync", "async"][(n // 7) % 2], opk, variant, place))
                    n += 5                                   # 5 is coprime to 14: every (kind, stack) in turn
    for i, kind in enumerate(KINDS):
        for opk in CIO_OPS:                                  # every kind x operation kind x stack, first line equal to the input
            for stack in ("sync", "async"):
                out.append(cio_scenario(rng, kind, stack, opk, rng.choice(["equal", "equal", "case", "blanks"]), rng.choice(["first", "first", "only"])))
        out.append(cio_hostname_scenario(rng, kind, ["sync", "async"][i % 2]))
    return out


def cio_seen(scn, res):
    """how many results of the history hold (case and blanks aside) a line that is the typed text of the operation - coverage only"""
    n = 0
    squash = lambda b: b"".join(b.lower().split())  # noqa
    for op, o in zip(scn["ops"], res["ops"]):
        typed = [op["cmd"]] if op["op"] == "cmd" else list(op.get("cmds", [])) + [e[0] for e in op.get("events", [])]
        keys = {squash(t.encode()) for t in typed if t.strip()}
        for _, _, proc in o.get("chan", []):
            n += any(squash(l) in keys for l in proc.split(b"\n"))
    return n


def focus_scenarios(rng, thorough):
    """(scenario, to the model too?) - every scenario runs on the real driver under the oracle; a sample whose estimated
    evaluation cost is small is also evaluated by the model (the members of a family differ in a few bytes only)"""
    out = []
    stacks = ["sync", "async"]

    def cheap(scn, budget=15000.0):
        return policy_cost(scn["policy"], stage_texts(scn), scn["depth"], scn["kind"]) <= budget

    for i, kind in enumerate(KINDS):
        for rnd in range(3 if thorough else 1):
            prompts = FOCUS_PROMPTS[kind]
            fam = suffix_cut_family(rng, kind, prompts[(i + rnd) % len(prompts)], 1000 if rnd != 1 else rng.choice([200, 64, 1000]), stacks[(i + rnd) % 2])
            pick = rng.randrange(len(fam))
            out += [(scn, j == pick) for j, scn in enumerate(fam)]
    pols = [["bytes", 1], ["bytes", 7], ["bytes", 64], ["lines"], ["whole"]]
    for j, pol in enumerate(pols):
        out.append((docstring_dialogue(stacks[j % 2], pol, "\n" if j % 3 else "\r\n"), j in (1, 3)))
        for twice in (True, False):
            out.append((docstring_dialogue(stacks[(j + 1) % 2], pol, "\n", asks_twice=twice, complete=True), j == 1))
    for n in range(240 if thorough else 60):
        scn = repeat_dialogue_scenario(rng, rng.choice(KINDS), stacks[n % 2], complete=False)
        out.append((scn, n % 4 == 0 and cheap(scn)))
    for n in range(240 if thorough else 60):
        scn = repeat_dialogue_scenario(rng, rng.choice(KINDS), stacks[n % 2], complete=True)
        out.append((scn, n % 4 == 0 and cheap(scn)))
    for n in range(120 if thorough else 30):
        scn = multiline_prompt_scenario(rng, stacks[n % 2])
        out.append((scn, n % 4 == 0 and cheap(scn)))
    for n, scn in enumerate(csi_family(rng, thorough)):
        out.append((scn, n % (41 if thorough else 53) == 0 and cheap(scn, 4000.0)))
    for n, scn in enumerate(long_echo_family(rng, thorough)):
        out.append((scn, n % 7 == 0 and cheap(scn, 6000.0)))
    for n, scn in enumerate(repattern_family(rng, thorough)):
        out.append((scn, n % 2 == 0 and cheap(scn, 15000.0)))
    for n, scn in enumerate(command_in_output_family(rng, thorough)):
        out.append((scn, n % (5 if thorough else 3) == 0 and cheap(scn, 6000.0)))
    return out


F_PROMPT_BLANK = {"kind": "cisco_nxos", "stack": "sync", "prompt": "switch1# ", "nl": "\r\n", "ret": "\n", "depth": 1000,
                  "policy": ["blank"], "replies": [{"out": "one"}, {"stages": [["", "Proceed [y/n] ", True]], "final": "done"}, {"out": "two"}],
                  "ops": [{"op": "cmd", "cmd": "show one", "strip": True},
                          {"op": "inter", "events": [["clear counters", "[y/n]", False], ["y", "switch1#", False]], "complete": None},
                          {"op": "cmd", "cmd": "show two", "strip": True}]}
F_ECHO_BLANK = {"kind": "generic", "stack": "sync", "prompt": "router1#", "nl": "\r\n", "ret": "\n", "depth": 1000,
                "policy": ["bytes", 4], "replies": [{"out": "ok"}], "ops": [{"op": "cmd", "cmd": "show ", "strip": True}]}
FINDING_SCENARIOS = {"c01-prompt-blank-residue": F_PROMPT_BLANK, "c01-echo-trailing-blank": F_ECHO_BLANK}


def strict_failures(scn, res):
    """the STRICT reading (nothing unread, raw result exact, no blank of an earlier prompt in a result): signatures that fail"""
    sigs = []
    prompt = s2b(scn["prompt"])
    core, trail = split_prompt(prompt)
    residue = res.get("residue0", b"")
    for op, o in zip(scn["ops"], res["ops"]):
        if o["exc"]:
            break
        w0, residue = residue, o["residue"]
        if residue:
            sigs.append("c01-prompt-blank-residue")
        if op["op"] in ("cmd", "cmds"):
            cmds = [op["cmd"]] if op["op"] == "cmd" else op["cmds"]
            prev = w0
            for c, (_, raw, proc) in zip(cmds, o["chan"]):
                lead = len(raw) - len(raw.lstrip(BLANK))
                if lead:
                    sigs.append("c01-prompt-blank-residue" if prev else "c01-echo-trailing-blank")
                prev = b"" if raw.endswith(prompt) else trail
        elif op["op"] == "inter" and o["chan"]:
            if w0 and o["chan"][0][2].startswith(w0):
                sigs.append("c01-prompt-blank-residue")
    return sorted(set(sigs))


def flat(scn):
    return json.loads(json.dumps(scn))


def minimise(scn, sig, pred):
    """drop operations (with their device replies) and simplify the chunk policy while `pred` keeps failing with `sig`"""
    best = flat(scn)

    def rebuild(base, keep):
        ops, replies, k = [], [], 0
        for i, op in enumerate(base["ops"]):
            n = op.get("nrep", 0)
            if i in keep:
                ops.append(op)
                replies += base["replies"][k:k + n]
            k += n
        return dict(base, ops=ops, replies=replies)

    changed = True
    while changed and len(best["ops"]) > 1:
        changed = False
        for i in range(len(best["ops"])):
            cand = rebuild(best, [j for j in range(len(best["ops"])) if j != i])
            try:
                if sig in pred(cand):
                    best, changed = cand, True
                    break
            except Exception:  # noqa
                pass
    for pol in (["whole"], ["bytes", 1], ["blank"], ["lines"]):
        cand = dict(best, policy=pol)
        try:
            if sig in pred(cand):
                best = cand
                break
        except Exception:  # noqa
            pass
    return best


def oracle_sigs(scn):
    if (scn.get("focus") == "repattern" or any(op["op"] == "setpat" for op in scn["ops"])) and not in_domain(scn, exact=True):
        # removing a pattern change (or the operations around it) can put an output outside the domain of the pattern then in
        # force: such a history is no counterexample
        return []
    res = run_connection(scn)
    if res["open_exc"]:
        return ["open-" + res["open_exc"]]
    return [s for s, _ in oracle(scn, res)]


def neighbourhood(scn, rng):
    """variations of a scenario on which model and implementation disagree: every chunk policy family, the history cut
    after each operation"""
    base = flat(scn)
    pols = [["whole"], ["bytes", 1], ["bytes", 2], ["bytes", 3], ["blank"], ["lines"], ["bytes", 999], ["bytes", 1000], ["bytes", 1001],
            ["takes", [rng.choice([1, 2, 5, 40, 300, 1000]) for _ in range(6)]]]
    for pol in pols:
        yield dict(base, policy=pol)
    for stack in ("sync", "async"):
        yield dict(base, stack=stack)


def run(rep):
    from gen import gen_channel
    from . import regexconf

    import time
    rng = rep.rng
    thorough = rep.tier == "thorough"
    timing = {}
    t0 = time.time()

    def lap(name):
        nonlocal t0
        timing[name] = round(time.time() - t0, 1)
        t0 = time.time()

    # 1. regenerate from the source
    info = {}
    try:
        _, info = gen_channel.generate(rep.workdir)
        rc, out, _ = common.coqc(os.path.join(rep.workdir, "Gen_Channel.v"), rep.workdir)
        if rc:
            rep.broken.append("Gen_Channel.v")
            rep.notes.append(out[-2000:])
    except Exception as e:  # translator aborted: broken tie
        rep.broken.append("gen_channel:%s: %s" % (type(e).__name__, e))
    gen_ok = not rep.broken
    # 2. proofs
    ok, _ = rep.build_static()
    rep.add_static_obligations("props/C01.v", ok)
    if not ok:
        rep.broken.append("static-build")
    props_ok = False
    if ok and gen_ok:
        props_ok, _ = rep.compile_props("props/C01.v")
    if thorough and props_ok:
        rc, out, _ = common.sh(["timeout", "900", "coqchk", "-o", "-silent", "-Q", common.COQ, "Verif", "-Q", rep.workdir, "Gen", "Gen.C01"],
                               cwd=rep.workdir, timeout=1000)
        rep.coverage["coqchk"] = ("ok: " + " ".join(out.split())[-200:]) if rc == 0 else "FAILED"
        if rc:
            rep.broken.append("coqchk props/C01.vo")
            rep.notes.append(out[-1500:])
    lap("gen+static+props")
    # 3. the concrete engines against CPython's re on the patterns of the tree
    if gen_ok:
        from scrapli.channel import base_channel as bc
        pats, seen = [], set()
        for k, p in sorted(info.get("patterns", {}).items()):
            if p not in seen:
                seen.add(p)
                pats.append((k, p.encode(), re.M | re.I))
        pats.append(("ansi", bc.ANSI_ESCAPE_PATTERN.pattern, re.X))
        pats.append(("ansi-partial", bc.ANSI_ESCAPE_PARTIAL_PATTERN.pattern[:-2], 0))
        try:
            _, rstats = regexconf.run(rep, pats, 120 if thorough else 25, name="c01_regexconf")
        except Exception as e:  # noqa
            rep.broken.append("regex-conformance: %s" % e)
            rstats = {}
        rep.coverage["regex_conformance"] = rstats
    lap("regex-conformance")
    # 4. scenarios on the real drivers
    streams = [("corpus", s) for s in corpus(rng)]
    n_gen = 2000 if thorough else 360
    for i in range(n_gen):
        streams.append(("gen", gen_scenario(rng)))
    for i in range(400 if thorough else 90):
        streams.append(("edge", gen_edge(rng)))
    # focused kinds (inside the domain, exact check): every one on the real driver under the oracle, a sample through the model too
    for scn, to_model in focus_scenarios(rng, thorough):
        streams.append(("focus" if to_model else "focus-oracle", scn))
    dist = {"by_stream": {}, "by_kind": {}, "by_stack": {}, "by_op": {}, "policy": {}, "nops": {}, "ret": {}, "nl": {}, "depth": {},
            "out_size": {"0": 0, "1-99": 0, "100-899": 0, "900-1100": 0, "1101-2999": 0, "3000+": 0},
            "cmd_trailing_ws": 0, "cmd_unicode": 0, "cmd_upper": 0, "cmd_blank": 0, "prompt_trailing_blank": 0,
            "residue_nonempty_after_op": 0, "starved": 0, "edge_kinds": {}, "edge_in_domain": 0, "dialogue_events": 0, "focus": {},
            "total_output_bytes": 0, "reads": 0}
    terms, meta, fails = [], [], []
    seg_terms, seg_meta = [], []       # histories with pattern changes: evaluated by the model's run_segs
    for stream, scn in streams:
        scn = flat(scn)
        try:
            res = run_connection(scn)
        except Exception as e:  # the harness / device could not run it: fail closed
            rep.broken.append("harness: connection failed: %s: %s" % (type(e).__name__, e))
            rep.notes.append(json.dumps(scn)[:1500])
            continue
        if res["open_exc"]:
            if stream != "edge":
                rep.broken.append("harness: open() failed (%s) for %s %r" % (res["open_exc"], scn["kind"], scn["prompt"]))
            continue
        dom = in_domain(scn, exact=(stream not in ("gen", "corpus")))
        if stream.startswith("focus"):
            fk = dist["focus"].setdefault(scn.get("focus"), {"scenarios": 0, "in_domain": 0, "through_model": 0})
            fk["scenarios"] += 1
            fk["in_domain"] += bool(dom)
            fk["through_model"] += stream == "focus"
            if scn.get("focus") == "utf8-9b9d" and dom:
                ins, cut = csi_positions(scn, res)
                cs = dist.setdefault("utf8_9b9d", {"pairs_inside_one_read": 0, "pairs_cut_by_a_read_boundary": 0, "by_byte_follower_place": {}})
                cs["pairs_inside_one_read"] += ins
                cs["pairs_cut_by_a_read_boundary"] += cut
                b_, f_, w_, pl_ = scn["csi"]
                key = "%s %s %s" % (b_, f_, pl_.split("-")[1])
                c2 = cs["by_byte_follower_place"].setdefault(key, [0, 0])
                c2[0] += ins > 0
                c2[1] += cut > 0
        if stream in ("gen", "corpus") and not dom:
            # a random text can by chance contain an awaited literal: model-vs-implementation only; more than a few => generator defect
            dist["gen_outside_domain"] = dist.get("gen_outside_domain", 0) + 1
            if dist["gen_outside_domain"] > max(3, n_gen // 50):
                rep.broken.append("harness: too many generated scenarios outside the domain")
                rep.notes.append(json.dumps(scn)[:1500])
                continue
        bad = oracle(scn, res) if dom else []
        for sig, text in bad:
            fails.append((scn, sig, text))
        if scn.get("focus") == "command-in-output":
            ci = dist.setdefault("command_in_output", {"by_op_variant": {}, "by_op_place": {}, "by_kind_op": {}, "by_stack_op": {}, "through_model": 0,
                                                       "lines_derived_from_the_input_in_results": 0})
            if dom:
                opk, variant, place, sub = scn["cio"]
                for dname, key in (("by_op_variant", "%s %s" % (opk, variant)), ("by_op_place", "%s %s" % (opk, place)),
                                   ("by_kind_op", "%s %s" % (scn["kind"], opk)), ("by_stack_op", "%s %s" % (scn["stack"], opk))):
                    ci[dname][key] = ci[dname].get(key, 0) + 1
                ci["through_model"] += stream == "focus"
                ci["lines_derived_from_the_input_in_results"] += cio_seen(scn, res)
        if scn.get("focus") == "repattern":
            rp = dist.setdefault("repattern", {"by_via_kind_stack": {}, "pattern_changes": 0, "operations_after_a_change": 0,
                                               "outputs_with_lines_the_previous_pattern_reads_as_prompt": 0})
            if dom:
                cls = "generic" if scn["kind"] == "generic" else "network" if scn["kind"] == "network" else "platform"
                key = "%s %s %s" % (scn["via"], cls, scn["stack"])
                rp["by_via_kind_stack"][key] = rp["by_via_kind_stack"].get(key, 0) + 1
                first = [i for i, op in enumerate(scn["ops"]) if op["op"] == "setpat"][0]
                rp["pattern_changes"] += sum(1 for op in scn["ops"] if op["op"] == "setpat")
                rp["operations_after_a_change"] += sum(1 for op in scn["ops"][first:] if op["op"] != "setpat")
                rp["outputs_with_lines_the_previous_pattern_reads_as_prompt"] += scn.get("tempted", 0)
        if stream != "focus-oracle":
            if any(op["op"] == "setpat" for op in scn["ops"]):
                try:
                    seg_terms.append(seg_case_term(scn, res))
                    seg_meta.append((stream, scn, bool(bad), dom))
                except Exception as e:  # noqa  (a pattern the translator does not know: oracle only)
                    dist["repattern_untranslatable"] = dist.get("repattern_untranslatable", 0) + 1
                    rep.notes.append("repattern: pattern not translated for the model (%s)" % e)
            else:
                terms.append(case_term(scn, res))
                meta.append((stream, scn, bool(bad), dom))
        # distribution
        def inc(d, k):
            d[str(k)] = d.get(str(k), 0) + 1
        inc(dist["by_stream"], stream)
        inc(dist["by_kind"], scn["kind"])
        inc(dist["by_stack"], scn["stack"])
        inc(dist["policy"], scn["policy"][0])
        inc(dist["nops"], len(scn["ops"]))
        inc(dist["ret"], repr(scn.get("ret", "\n")))
        inc(dist["nl"], repr(scn.get("nl", "\r\n")))
        inc(dist["depth"], "1000" if scn["depth"] == 1000 else ("<64" if scn["depth"] < 64 else "64-200"))
        if scn["prompt"].endswith(" "):
            dist["prompt_trailing_blank"] += 1
        if stream == "edge":
            inc(dist["edge_kinds"], scn.get("edge"))
            dist["edge_in_domain"] += bool(dom)
        dist["reads"] += res.get("reads", 0)
        for t in stage_texts(scn):
            n = len(t)
            dist["total_output_bytes"] += n
            b = "0" if n == 0 else "1-99" if n < 100 else "100-899" if n < 900 else "900-1100" if n <= 1100 else "1101-2999" if n < 3000 else "3000+"
            dist["out_size"][b] += 1
        for op, o in zip(scn["ops"], res["ops"]):
            inc(dist["by_op"], op["op"])
            cmds = [op["cmd"]] if op["op"] == "cmd" else op.get("cmds", [])
            for cm in cmds:
                dist["cmd_trailing_ws"] += cm != cm.rstrip() and bool(cm.strip())
                dist["cmd_unicode"] += any(ord(ch) > 127 for ch in cm)
                dist["cmd_upper"] += cm != cm.lower()
                dist["cmd_blank"] += not cm.strip()
            dist["dialogue_events"] += len(op.get("events", []))
            dist["residue_nonempty_after_op"] += bool(o["residue"])
            dist["starved"] += o["exc"] == "Starved"
            rep.case((scn["kind"], scn["stack"], json.dumps(op, sort_keys=True), tuple(map(str, scn["policy"]))),
                     nontrivial=dom and not o["exc"] and (len(scn["ops"]) > 1))
        if len(rep.samples) < 3 and stream == "gen" and len(scn["ops"]) >= 3:
            rep.sample({"kind": scn["kind"], "stack": scn["stack"], "prompt": scn["prompt"], "policy": scn["policy"], "depth": scn["depth"],
                        "ops": [{k: (v if k != "events" else v) for k, v in op.items() if k != "nrep"} for op in scn["ops"]][:4],
                        "output_sizes": [len(t) for t in stage_texts(scn)],
                        "results": [[c[2][:60].decode("latin-1") for c in o["chan"]] or o.get("prompt") for o in res["ops"]][:4],
                        "residue_after_each_op": [o["residue"].decode("latin-1") for o in res["ops"]]})
    for fkind, fk in sorted(dist["focus"].items()):
        if fk["in_domain"] * 10 < fk["scenarios"] * 6:
            rep.broken.append("harness: focused stream %s: only %d of %d scenarios inside the domain" % (fkind, fk["in_domain"], fk["scenarios"]))
    # the 9b/9d family is only worth its name if every (byte, follower, output / echo) class was seen, inside the domain, with the
    # pair in one read and with a read boundary between the two bytes
    cs = dist.get("utf8_9b9d", {}).get("by_byte_follower_place", {})
    want_keys = {"%02x %s %s" % (b_, (f.split(" ")[0][:3] if f[0] in "[]" else f[0]), pl) for b_ in C9 for _, f in CSI_FOLLOW for pl in ("out", "echo")}
    thin = sorted(k for k in want_keys if min(cs.get(k, [0, 0])) == 0)
    if thin:
        rep.broken.append("harness: utf8-9b9d stream: %d classes not seen both inside one read and cut by a read boundary (first: %s)" % (len(thin), thin[0]))
    # the repattern family: every way of changing the pattern on every class of driver, sync and asyncio, inside the domain, and
    # outputs with lines the replaced pattern reads as a prompt
    rp = dist.get("repattern", {})
    want_rp = {"%s %s %s" % (v, c, st) for v in ("driver", "args", "privs") for c in ("generic", "network", "platform") for st in ("sync", "async")
               if not (v == "privs" and c == "generic")}
    thin = sorted(k for k in want_rp if not rp.get("by_via_kind_stack", {}).get(k))
    if thin or rp.get("outputs_with_lines_the_previous_pattern_reads_as_prompt", 0) < 20 or dist.get("repattern_untranslatable", 0) > 0:
        rep.broken.append("harness: repattern stream thin: classes missing %s, %d outputs with tempting lines, %d untranslatable" % (
            thin[:3], rp.get("outputs_with_lines_the_previous_pattern_reads_as_prompt", 0), dist.get("repattern_untranslatable", 0)))
    # the command-in-output family: every operation kind saw every variant and every place, every driver kind every operation kind,
    # sync and asyncio, inside the domain; and the derived lines did arrive in results (counted on what the driver returned)
    ci = dist.get("command_in_output", {})
    want_ci = ({("by_op_variant", "%s %s" % (o, v)) for o in CIO_OPS for v in CIO_VARIANTS} | {("by_op_place", "%s %s" % (o, p)) for o in CIO_OPS for p in CIO_PLACES}
               | {("by_kind_op", "%s %s" % (k, o)) for k in KINDS for o in CIO_OPS} | {("by_stack_op", "%s %s" % (st, o)) for st in ("sync", "async") for o in CIO_OPS})
    thin = sorted(k for d, k in want_ci if not ci.get(d, {}).get(k))
    if thin or ci.get("through_model", 0) < 10:
        rep.broken.append("harness: command-in-output stream thin: %d classes missing (first: %s), %d through the model" % (
            len(thin), thin[:1], ci.get("through_model", 0)))
    for sig, fscn in FINDING_SCENARIOS.items():
        try:
            fs = with_nrep(flat(fscn))
            fres = run_connection(fs)
            if sig in strict_failures(fs, fres):
                if not rep.known(sig):
                    rep.violation("strict framing fails (%s) and no known finding lists it" % sig,
                                  {"suite": "chan-framing", "scenario": fs, "signature": sig, "strict": True})
            terms.append(case_term(fs, fres))
            meta.append(("finding", fs, False, True))
        except Exception as e:  # noqa
            rep.notes.append("finding replay %s could not run: %r" % (sig, e))
    lap("implementation-runs")
    # 6. the model on the same histories
    import threading
    seg_out = [None, "not run"]

    def eval_segs():
        seg_out[:] = list(common.eval_cases(rep.workdir, "cases_c01_seg", HEADER_SEG, seg_terms, "chk2", shard=max(1, -(-len(seg_terms) // (8 if thorough else 4)))))

    th = threading.Thread(target=eval_segs)
    if gen_ok:
        th.start()
    badix, log = (None, "generated file missing") if not gen_ok else eval_balanced(rep.workdir, "cases_c01", terms, 48 if thorough else 32)
    if gen_ok:
        th.join()
    seg_bad, seg_log = seg_out
    lap("model-evaluation")
    rep.coverage["timing_s"] = timing
    rep.coverage["correspondence"] = {"suite": "chan-framing", "cases": len(terms) + len(seg_terms), "distribution": dist,
                                      "cases_with_pattern_changes": len(seg_terms),
                                      "model_disagreements": None if badix is None or seg_bad is None else len(badix) + len(seg_bad),
                                      "oracle_failures": len(fails)}
    rep.coverage["generated_from"] = common.source_hashes(SOURCES)
    rep.coverage["generated"] = {k: v for k, v in info.items()}
    rep.rule = ("histories of 2-6 operations (send_command, send_commands, send_interactive with echoed and hidden answers, get_prompt) on one connection of a real "
                "Generic / Network / IOS-XE / IOS-XR / NX-OS / EOS / Junos driver, sync and asyncio, over a causal framing device; prompts of the vendor's shape "
                "with and without trailing blank; outputs of 0, a few, prompt-length, window-crossing (depth-prompt-4 .. depth+4) and several thousand bytes with "
                "blank lines, trailing blanks, lines of 998-1500 bytes, high bytes; commands with inner/leading/trailing blanks, upper case, unicode, 1 kB, empty and "
                "blank; strip_prompt on/off; return char \\n and \\r\\n; device line ends \\r\\n and \\n; search depth 1000, 200, 64, prompt+1; chunk policies whole, "
                "n bytes (1..1001), cyclic take lists, cut-before-trailing-blank, line-wise; an edge stream (prompt-like text, eager, completion patterns, regex / "
                "early expected responses, escape sequences, backspace, prefix-prompts) is model-vs-implementation only unless the exact domain check passes; "
                "focused streams inside the domain (exact check; all under the oracle, a cheap sample through the model): suffix-cut = outputs longer than the "
                "search depth whose every line ENDS in a word that alone reads as a prompt, in families of lengths that move the point `depth` bytes "
                "before the end through every offset of a line, each followed by a second command; repeat-dialogue = 2-5 event dialogues in which the text "
                "of an expected response re-appears as ordinary output while another event is awaited (same question twice, the docstring example of "
                "send_inputs_interact), 1/2/3/7/64-byte, line-wise and whole reads, followed by a command; complete-dialogue = the same with "
                "interaction_complete_patterns (literal or ^..$) and a device that asks fewer questions than the caller lists events; multiline-prompt = "
                "two-line Junos prompts ({master:0} banner line); utf8-9b9d = UTF-8 text without any ESC in which a character whose last byte is "
                "0x9b or 0x9d (Cyrillic El/En, s-acute, U-circumflex, CJK 4F9B/601D, emoji) is followed - directly, after a blank, a tab, a newline - by each "
                "thing the ANSI pattern could consume after its 8-bit CSI/OSC start bytes (7 8 M E, '[' + parameters + final byte, '[..m', ']' digit text "
                "BEL, and the non-sequences '[ ' / ']' without BEL), placed in the output of send_command, in the outputs of send_commands, in the texts "
                "and the final output of a send_interactive dialogue, and in the ECHO of a command, of commands of send_commands, of the first line and of "
                "an echoed answer of a dialogue; each under a policy that keeps the pair inside one read (whole, 16/1000 bytes, line-wise ...) and one that "
                "cuts between the two bytes (1/2/3/7 bytes, take lists), each followed by a plain command (every class must be seen in both positions, "
                "counted from the chunks the transport handed out); long-echo = commands of 20 .. 1100 non-blank characters read back in 1/7/16/64/128/130-"
                "byte reads, all-but-the-last-3-bytes and a cut 1..90 characters before the end of the echo, alone and as second command of send_commands; "
                "repattern = histories on one open connection in which the prompt pattern is changed 1-3 times BETWEEN operations - conn.comms_prompt_pattern = "
                "..., the channel's arguments (_base_channel_args), and (network drivers) update_privilege_levels() after editing one or several level "
                "patterns - narrowed to the host / the mode / the prompt character, replaced by another narrow pattern, restored; every driver kind x "
                "sync/asyncio x every way of changing; after each change the outputs of send_command / send_commands / the final text of a dialogue hold "
                "complete lines that the REPLACED pattern reads as a prompt and the pattern in force does not (RX> Totals: vlan# sw1(config)# [edit] ...; first, "
                "inner and last line, with trailing blanks), get_prompt in between; in_domain and the model judge each operation against the pattern in "
                "force when it is called; a pattern change itself must not talk to the device and must be reported back by the driver; "
                "command-in-output = outputs derived from the typed text itself: a line that equals the command (exactly; in other case; with other "
                "inner / leading / trailing blanks or tabs; followed by an empty line), that starts or ends with the command, the command twice (two lines, "
                "one line), as the first (also after blank lines), an inner, the last or the only line of the output of send_command, of one of the "
                "commands of send_commands (its own command, the one sent before or after it) and - send_interactive - of the text in front of a question "
                "(first line of the dialogue) or of the final output (the echoed or the hidden answer); `hostname` on a host called hostname; every "
                "driver kind x operation kind x sync/asyncio, every variant and place per operation kind (checked), each followed by a plain command; observer: what was unread at every transport write (each answer is typed only after its "
                "question was read); "
                "non-trivial = in-domain operation of a history with >= 2 operations; distinct = (driver, stack, operation, chunk policy)")
    # 7. verdicts
    seen = set()
    for scn, sig, text in fails:
        if sig in seen:
            continue
        seen.add(sig)
        if len(seen) > 5:
            break
        small = minimise(scn, sig, oracle_sigs)
        rep.violation("%s %s: %s" % (scn["kind"], scn["stack"], text),
                      {"suite": "chan-framing", "scenario": small, "signature": sig, "rerun": "./check C01 --replay <this file>"}, signature=sig)
    if seg_bad is None:
        rep.broken.append("correspondence chan-framing, histories with pattern changes (model evaluation failed)")
        rep.notes.append(seg_log)
    elif seg_bad:
        pure2 = [ix for ix in seg_bad if not seg_meta[ix][2]]
        for ix in seg_bad[:3]:
            rep.notes.append("model/implementation disagreement (repattern): %s" % json.dumps(seg_meta[ix][1])[:1600])
        if pure2:
            rep.broken.append("correspondence chan-framing: model (run_segs) differs from implementation on %d histor%s with pattern changes (first: %s %s via %s)" % (
                len(pure2), "y" if len(pure2) == 1 else "ies", seg_meta[pure2[0]][1]["kind"], seg_meta[pure2[0]][1]["stack"], seg_meta[pure2[0]][1].get("via")))
    if badix is None:
        rep.broken.append("correspondence chan-framing (model evaluation failed)")
        rep.notes.append(log)
    elif badix:
        pure = [ix for ix in badix if not meta[ix][2]]
        for ix in badix[:4]:
            rep.notes.append("model/implementation disagreement (%s): %s" % (meta[ix][0], json.dumps(meta[ix][1])[:1600]))
        if pure:
            rep.broken.append("correspondence chan-framing: model differs from implementation on %d histor%s (first: %s %s %s)" % (
                len(pure), "y" if len(pure) == 1 else "ies", meta[pure[0]][1]["kind"], meta[pure[0]][1]["stack"], meta[pure[0]][0]))
        if pure and not fails:
            # search for a failing input of the property near the disagreements, then in a fresh focused stream
            found = False
            cands = []
            for ix in pure[:6]:
                cands += list(neighbourhood(meta[ix][1], rng))
            kinds = sorted({meta[ix][1]["kind"] for ix in pure})
            for _ in range(150):
                cands.append(gen_scenario(rng, kind=rng.choice(kinds), big_ok=False))
            for cand in cands:
                cand = flat(cand)
                try:
                    if not in_domain(cand, exact=True):
                        continue
                    cres = run_connection(cand)
                    if cres["open_exc"]:
                        continue
                    b = oracle(cand, cres)
                except Exception:  # noqa
                    continue
                if b:
                    small = minimise(cand, b[0][0], oracle_sigs)
                    rep.violation("%s %s: %s" % (cand["kind"], cand["stack"], b[0][1]),
                                  {"suite": "chan-framing", "scenario": small, "signature": b[0][0],
                                   "rerun": "./check C01 --replay <this file>"}, signature=b[0][0])
                    found = True
                    break
            if not found:
                rep.notes.append("no in-domain failing input found near the disagreements")


def replay(path):
    r = json.load(open(path))
    scn = r.get("scenario")
    if not scn:
        print("nothing to replay (no concrete input): %s" % r.get("what"))
        return 1
    res = run_connection(scn)
    print("%s %s prompt=%r depth=%s ret=%r nl=%r policy=%s" % (scn["kind"], scn["stack"], scn["prompt"], scn.get("depth"),
                                                             scn.get("ret", "\n"), scn.get("nl", "\r\n"), scn["policy"]))
    if res["open_exc"]:
        print("open() failed: %s" % res["open_exc"])
        return 1
    for op, o in zip(scn["ops"], res["ops"]):
        print("  %s" % {k: v for k, v in op.items() if k != "nrep"})
        print("     exc=%s prompt=%r unread=%r device at prompt=%s" % (o["exc"], o.get("prompt"), o["residue"], o["ready"]))
        if op["op"] == "setpat":
            print("     pattern reported by the driver / held by the channel's arguments: %r" % (o.get("pattern"),))
        for name, raw, proc in o["chan"]:
            print("     raw_result=%r" % (raw if len(raw) < 300 else raw[:140] + b" ... " + raw[-140:]))
            print("     result    =%r" % (proc if len(proc) < 300 else proc[:140] + b" ... " + proc[-140:]))
        print("     device log: %r" % [(a, b[:60]) for a, b in o["log"]])
        if op["op"] == "inter":
            print("     unread at each write: %r" % [(d, u[-40:]) for d, u, _ in o.get("writes", [])])
    rc = 0
    dom = in_domain(scn, exact=True)
    print("inside the property's domain: %s" % dom)
    bad = oracle(scn, res)
    for sig, text in bad:
        print("property FAILS: [%s] %s" % (sig, text[:400]))
        rc = 1
    if r.get("strict"):
        st = strict_failures(scn, res)
        for sig in st:
            print("strict framing FAILS: [%s]" % sig)
        if r.get("signature") in st:
            rc = 1
    print("property holds on this input" if rc == 0 else "property FAILS on this input")
    return rc


MANIFEST = {
    "category": "proof",
    "text": "Coq theorem C01_history (props/C01.v, over coq/model/Channel.v; 22 property theorems, all 'Closed under the global context', and 5 Examples): for EVERY "
            "finite sequence of send_command / send_commands / send_interactive / get_prompt on one connection, EVERY chunker (any function of read index, "
            "bytes delivered and pending bytes), EVERY search depth greater than the prompt, return char \\n or \\r\\n, device line end, strip_prompt on/off, "
            "EVERY reply function of the device and EVERY output satisfying the property's side condition (no CR/ESC; no proper prefix of what is printed up to the "
            "end of the next prompt is read as a prompt through the search window; re.sub removes the final prompt only), every operation returns, each result "
            "is the normalisation (trailing blanks per line and surrounding blank lines trimmed - an independent definition proved equal to _process_output) of "
            "ITS OWN command's output as logged by the device, raw_result is that text exactly up to blank residue, the device executed exactly the lines sent, "
            "and afterwards the device is at its prompt with nothing unread but (a suffix of) the prompt's trailing blank (induction over the history; invariant "
            "preservation). Lemmas proved at full generality: C01_read_loop_first (every read loop returns at the first read boundary from which its test holds), "
            "C01_found_through_window / C01_window_drops_partial_first_line (the search window and its drop-first-partial-line rule for every depth and every "
            "amount of preceding output), C01_echo_consumed, C01_process_output_is_normalise. The matcher is a Section variable with named hypotheses M1-M3; "
            "C01_history_concrete discharges them for the executable CPython-order engine on ANY pattern by one computation (prompt_okb), and "
            "C01_generated_drivers instantiates it on the prompt pattern of a constructed driver of each kind (Generic, Network, 5 platforms) regenerated from the "
            "tree on every run. The strict reading (nothing at all unread, raw_result exact) is refuted by two vm_compute witnesses (C01_full_refuted_*; replayed "
            "on the real drivers: known findings C01-prompt-blank-residue, C01-echo-trailing-blank) and proved where it holds (C01_history_exact_partial: prompt "
            "without trailing blank, commands without trailing white space). Tie: Gen_Channel.v (depth, return char, the prompt pattern of a constructed driver of every kind, "
            "ANSI patterns, the shape of the escape-sequence carry-over, and the behaviour of the REAL _process_read_buf / _process_output / _get_prompt_pattern on ~125 probe "
            "inputs (one output longer than the search depth whose search-depth point lies inside a prompt-like word) and of the REAL read() of both stacks on ~115 (carry-over, chunk) probes, compiled as obligations C01_generated_* against the model's prb / process_output / ch_read) regenerated and recompiled on every run; "
            "the model is executed by vm_compute on the same histories as the real drivers (sync and asyncio, 7 kinds) over a causal framing device and must agree "
            "on every raw/processed result, get_prompt value, bytes written, device log, unread residue; an independent oracle decides the property on the "
            "device's own log; both regex engines are confronted with CPython's re on every pattern of the tree. Focused in-domain streams run on the real "
            "drivers under the oracle (a sample also through the model): outputs longer than the search depth whose lines END in prompt-like words, in length "
            "families that put the search-depth point at every offset of a line (the property's 'complete or partial line' is read as 'line or line PREFIX as "
            "received', which is what Coq's quiet states through the window: a line SUFFIX is never a prompt candidate, so such outputs are inside the domain); "
            "multi-event send_interactive dialogues in which the text of an expected response re-appears while another event is awaited, with and without "
            "interaction_complete_patterns and with devices that ask fewer questions than the caller lists events (the device must receive exactly the lines it "
            "asked for, every answer is typed only after its question was read, the next command returns its own output); two-line Junos prompts; "
            "UTF-8 outputs and command echoes without any ESC whose continuation bytes 0x9b / 0x9d (the 8-bit CSI / OSC codes the ANSI pattern also "
            "starts at) are followed by every kind of text that pattern could consume (7 8 M E, '[' parameters final byte, ']' digit text BEL; directly or "
            "after a blank / tab / newline), in send_command / send_commands / send_interactive outputs and in echoes, with the pair inside one read and "
            "cut by a read boundary (result = the normalised device record, decoded as UTF-8); commands of up to 1100 characters whose echo arrives in "
            "several reads; histories in which the prompt pattern of the OPEN connection is changed between operations (driver attribute "
            "comms_prompt_pattern, the channel's arguments, update_privilege_levels() after editing level patterns; Generic, Network and platform drivers, "
            "sync and asyncio) with outputs whose lines the replaced pattern reads as prompts: each operation is judged against the pattern in force when it "
            "is called - Coq: C01_history_repattern (segments of a history, each with its own pattern, compose because the invariant between operations does "
            "not mention the pattern; model run_segs, which evaluates every second of these histories whose estimated cost is small - the others are oracle-only), tie: C01_generated_pattern_read_at_each_use (probe of the "
            "REAL helpers after a change of the pattern text) and an AST check that every use of the prompt pattern in the three channel classes compiles "
            "self._base_channel_args.comms_prompt_pattern at that use through the static text-keyed _get_prompt_pattern, no compiled pattern kept on the "
            "channel. Outputs derived from the command itself (stream command-in-output: the first / an inner / the last / the only line equals the typed "
            "text exactly, up to case, up to blanks, followed by a return; has it as a prefix or suffix; repeats it - send_command, send_commands with the "
            "own and the neighbouring commands, send_interactive event inputs against the dialogue's texts; all driver kinds, sync and asyncio): the result "
            "is the normalised device record whatever was typed - in the model process_output and the results of send_input / send_inputs_interact are "
            "functions of the bytes read after the return only (C01_process_output_is_normalise, C01_history), and the obligation "
            "C01_generated_process_output now probes the REAL _process_output with EVERY signature it accepts: buffers that hold a command as a line, and "
            "for any parameter beyond (buf, strip_prompt) values derived from the buffer's own lines (bytes / text, as is / lower case / without blanks / "
            "with the return character), by keyword and by position - every accepted call must give what the model computes from the buffer alone. "
            "read() itself is tied: C01_read_without_esc_verbatim (a read without ESC hands the transport's bytes on verbatim for EVERY "
            "stripping function - the guard of read() is part of the model, and the history theorem rests on it) and the obligation C01_generated_read "
            "over ~115 probes of the REAL Channel.read / AsyncChannel.read (carry-over in, one transport chunk -> bytes returned, carry-over out; half of "
            "them ESC-free chunks with 0x9b / 0x9d + every follower; C01_generated_read_guard_exercised: the tree's ANSI pattern would change some of them).",
    "note": "Proved on the model; the tie of the model to the code is the correspondence run (sampled). Section hypotheses of the general theorem (each discharged "
            "for the concrete engine by prompt_okb): M1 white space alone is never read as a prompt; M2 the prompt on the last line is found whatever complete "
            "lines precede it; M3 get_prompt's whole-buffer search matches nothing before the complete prompt and then matches the prompt. Side conditions of the "
            "property as formalised: commands free of BS/LF/CR/ESC; outputs free of CR/ESC and 'quiet' (exact windowed reading of 'no complete or partial line can "
            "be read as a prompt', which also covers a >window line whose tail reads as a prompt); prompt = one line ending in a non-blank plus blanks, no proper "
            "prefix of it a prompt; send_interactive: expected responses are literals that end each question, hidden <-> not echoed, no completion patterns; "
            "send_commands with eager=False. NOT covered by the theorems, covered by the executable model (correspondence) and the oracle only: "
            "interaction_complete_patterns (modelled in Channel.v interaction_complete / interact_events; oracle domain: no armed pattern is found before the "
            "end of an event's text, an early return to the prompt is 'complete' and not 'expected') and prompts of two lines (C01_history assumes a one-line "
            "prompt; the model and the oracle take the prompt as given). Oracle-only: the per-write observation (nothing but a question's trailing blank is "
            "unread when its answer is typed) - the model's observation record has no per-write field. Strict input mode only; ANSI stripping, rough mode and chunk-independence of decorated streams are C02's (the model "
            "carries the escape-sequence carry-over of read() in both shapes of the tree, exercised model-vs-implementation only: edge stream 'esc' and the "
            "ESC-carrying half of the read() probes; inside C01's domain - no ESC - the model's read is the identity minus CR, which the utf8-9b9d stream "
            "checks on the real code under the oracle, a sample through the model). The long-echo stream is mostly oracle-only (a sample through the model); of the command-in-output stream every third history "
            "goes through the model, all under the oracle; what send_input hands to _process_output at run time is not observed directly (the oracle "
            "sees its effect on the result). "
            "Pattern changes: C01_history_repattern requires of every segment what C01_history_concrete requires (prompt_okb of the segment's pattern, outputs "
            "quiet under it); the change itself is modelled as instantaneous and silent (the oracle checks on the real driver that it writes and reads "
            "nothing and that the driver reports the pattern set); how a network driver derives the joined pattern from its levels is not modelled - the "
            "harness takes 'any of the levels' patterns' as the pattern in force after update_privilege_levels(); patterns that change the PROMPT the device "
            "prints (a new hostname) are not generated. "
            "failed flags are C13's. "
            "Partial: exactness of raw_result / 'nothing unread' only up to the trailing blank of a prompt and the trailing white space of a command (two known, "
            "benign findings). Trusted: Coq kernel + vm_compute, gen/gen_channel.py + gen/regex.py, the framing device and scripted transports, CPython re "
            "conformance by sampling.",
    "technique": "Coq proofs: first-hit induction over transport reads for an arbitrary chunker, window lemmas by case analysis on window vs buffer, line-algebra "
                 "(split/join/strip) for _process_output, invariant induction over operation histories and dialogue stages, CPS-matcher lemmas bridging the "
                 "concrete regex engine; vm_compute refutations; regenerated obligations; vm_compute correspondence against sync and asyncio drivers; device-log "
                 "oracle with minimised replays",
}
