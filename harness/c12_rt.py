"""C12 helper — the REAL transport classes (system / telnet / asynctelnet / paramiko / asyncssh / ssh2) driven with a
fake endpoint in front of a simulated device, so that whole dialogues (in-channel login, privilege escalation, hidden
interactive inputs) run through `Transport.read` / `Transport.write` of the plugin, and the endpoint can FAIL a write
(pty EIO, broken pipe, reset) at a chosen write of the dialogue.

No source hooks: the plugin's `open()` is replaced on the instance by a stub that attaches the endpoint where the real
`open()` would have put the pty process / socket / stream pair / library channel (system: the stub first runs the real
`_build_open_cmd()`, which is where the plugin reads the user's transport_options["open_cmd"])."""
import errno

from .simdevice import Chunker, Starved, driver_class

# what a write on a dead endpoint raises, per kind of endpoint
WRITE_EXC = {
    "EIO": lambda: OSError(errno.EIO, "Input/output error"),
    "EBADF": lambda: OSError(errno.EBADF, "Bad file descriptor"),
    "EPIPE": lambda: BrokenPipeError(errno.EPIPE, "Broken pipe"),
    "ECONNRESET": lambda: ConnectionResetError(errno.ECONNRESET, "Connection reset by peer"),
    "EOF": lambda: EOFError(),
    "closed": lambda: OSError("Socket is closed"),
}
# transport name -> (stack, in-channel login front, exceptions its endpoint raises on a write)
TRANSPORTS = {
    "system": ("sync", "ssh", ["EIO", "EBADF"]),
    "telnet": ("sync", "telnet", ["EPIPE", "ECONNRESET"]),
    "asynctelnet": ("async", "telnet", ["ECONNRESET", "EPIPE"]),
    "paramiko": ("sync", None, ["closed", "EOF"]),
    "asyncssh": ("async", None, ["EPIPE", "ECONNRESET"]),
    "ssh2": ("sync", None, ["EIO"]),
}


class Pipe:
    """stands for the pty process / socket / paramiko channel / ssh2 channel / stream pair of a real transport"""

    def __init__(self, device, policy=("whole",), fault=None):
        self.device = device
        self.chunker = Chunker(policy)
        self.delivered = 0
        self.fault = fault or {}
        self.nwrites = 0
        self.closed_ = False
        self.sock = self           # scrapli.transport.base.base_socket.Socket surface
        self._transport = self     # asyncssh connection surface (isalive)
        self._auth_complete = True
        self.tuple_reads = False   # ssh2: read() returns (size, bytes)

    # -- reads -----------------------------------------------------------------------------------
    def _take(self):
        pending = len(self.device.out) - self.delivered
        if pending <= 0:
            if self.device.closed or self.closed_:
                raise EOFError()
            raise Starved()
        n = max(1, self.chunker.take(self.delivered, pending))
        b = bytes(self.device.out[self.delivered:self.delivered + n])
        self.delivered += n
        return b

    def read(self, n=65535):
        b = self._take()
        return (len(b), b) if self.tuple_reads else b

    recv = read

    # -- writes ----------------------------------------------------------------------------------
    def write(self, b):
        self.nwrites += 1
        if self.fault.get("write_at") == self.nwrites or (self.fault.get("write_dead_from") or 10 ** 9) <= self.nwrites:
            raise WRITE_EXC[self.fault.get("exc", "EIO")]()
        self.device.feed(bytes(b))
        return len(b)

    send = write

    # -- liveness / housekeeping -----------------------------------------------------------------
    def isalive(self):
        return not (self.closed_ or self.device.closed)

    is_alive = isalive

    def eof(self):
        return self.closed_ or self.device.closed

    at_eof = eof

    def is_closing(self):
        return self.closed_

    def close(self):
        self.closed_ = True

    def settimeout(self, value):
        pass

    set_timeout = settimeout


class APipe(Pipe):
    async def read(self, n=65535):
        return self._take()


def attach(transport, tname, pipe):
    if tname == "system":
        transport.session = pipe
    elif tname == "telnet":
        transport.socket = pipe
    elif tname in ("asynctelnet",):
        transport.stdin = transport.stdout = pipe
    elif tname == "asyncssh":
        transport.session = pipe
        transport.stdin = transport.stdout = pipe
    elif tname == "paramiko":
        transport.session = pipe
        transport.session_channel = pipe
    elif tname == "ssh2":
        pipe.tuple_reads = True
        transport.session = pipe
        transport.session_channel = pipe
    else:
        raise ValueError("no fake endpoint for transport %r" % (tname,))


def make_real_driver(kind, tname, device, policy=("whole",), fault=None, **kw):
    """real scrapli driver of `kind` on the REAL transport plugin `tname`; `open()` attaches the fake endpoint"""
    from copy import deepcopy
    stack = TRANSPORTS[tname][0]
    cls = driver_class(kind, stack)
    args = dict(host="sim", transport=tname, auth_strict_key=False, timeout_ops=0, timeout_transport=0, timeout_socket=0)
    if kind == "network":
        from scrapli.driver.core.cisco_iosxe.base_driver import PRIVS
        args.update(privilege_levels=deepcopy(PRIVS), default_desired_privilege_level="privilege_exec")
    args.update(kw)
    d = cls(**args)
    t = d.transport
    if type(t).__module__.split(".")[-2] != tname:
        raise ValueError("driver did not pick the %s transport plugin: %r" % (tname, type(t)))
    d._c12_pipe = (Pipe if stack == "sync" else APipe)(device, policy, fault)
    if stack == "sync":
        def _open():
            if tname == "system":
                # what the real open() does before it spawns the process: the ssh command line is built from the
                # connection arguments and the user's transport_options["open_cmd"] (and logged)
                if not hasattr(t, "_build_open_cmd"):
                    raise ValueError("c12_rt: SystemTransport builds its command line differently (no _build_open_cmd)")
                t._build_open_cmd()
            attach(t, tname, d._c12_pipe)
    else:
        async def _open():
            attach(t, tname, d._c12_pipe)
    t.open = _open
    return d


def reconnect(d, tname, device, policy=("whole",)):
    """the next open() of this driver attaches a fresh endpoint in front of `device` (a new session of the device)"""
    d._c12_pipe = (Pipe if TRANSPORTS[tname][0] == "sync" else APipe)(device, policy, None)
