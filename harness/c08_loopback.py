"""C08 helper -- an in-process asyncssh server on 127.0.0.1 (own event loop in a background thread, so that
the sync transports can connect too) that speaks like a tiny device ("r1#" prompt, answers lines) and
ends the session mid-way, or fails the opening of the session at a chosen stage.

end:   exit        the shell ends (channel EOF/close), the ssh connection is KEPT by the server
       abort       the TCP connection is dropped without a word
       disconnect  SSH_MSG_DISCONNECT, then the connection is closed
       close       orderly close of the connection
stage: "" (drop on a line containing dropmid / dropnow) | begin_auth | password | session | pty | shell |
       refuse_session | refuse_pty | refuse_shell | start (shell exits at once)"""
import asyncio
import threading

import asyncssh

asyncssh.set_log_level(100)

_KEY = None


def _key():
    global _KEY
    if _KEY is None:
        _KEY = asyncssh.generate_private_key("ssh-ed25519")
    return _KEY


def _end(conn, chan, how):
    if how == "exit":
        chan.exit(0)
    elif how == "abort":
        conn.abort()
    elif how == "disconnect":
        conn.disconnect(11, "bye")
    else:
        conn.close()


class SshDevice:
    def __init__(self, end, stage=""):
        self.end, self.stage = end, stage
        self.loop = asyncio.new_event_loop()
        self.thread = threading.Thread(target=self._run, name="c08-ssh", daemon=True)
        self.thread.start()
        dev = self

        class Session(asyncssh.SSHServerSession):
            def connection_made(self, chan):
                self.chan = chan
                self.buf = ""

            def pty_requested(self, *a):
                if dev.stage == "refuse_pty":
                    return False
                if dev.stage == "pty":
                    self.chan.get_connection().abort()
                return True

            def shell_requested(self):
                if dev.stage == "refuse_shell":
                    return False
                if dev.stage == "shell":
                    self.chan.get_connection().abort()
                return True

            def session_started(self):
                if dev.stage == "start":
                    _end(self.chan.get_connection(), self.chan, dev.end)
                    return
                self.chan.write("r1#")

            def data_received(self, data, datatype):
                self.chan.write(data.replace("\n", "\r\n"))
                self.buf += data
                while "\n" in self.buf:
                    line, self.buf = self.buf.split("\n", 1)
                    if "dropmid" in line or "dropnow" in line:
                        if "dropmid" in line:
                            self.chan.write("partial outp")
                        _end(self.chan.get_connection(), self.chan, dev.end)
                        return
                    if line.strip():      # an empty line (the driver's opening return) gets no answer
                        self.chan.write("out of " + line + "\r\nr1#")

            def eof_received(self):
                return False

        class Server(asyncssh.SSHServer):
            def connection_made(self, conn):
                self.conn = conn

            def begin_auth(self, username):
                if dev.stage == "begin_auth":
                    self.conn.abort()
                return True

            def password_auth_supported(self):
                return True

            def validate_password(self, username, password):
                if dev.stage == "password":
                    self.conn.abort()
                return True

            def session_requested(self):
                if dev.stage == "refuse_session":
                    return False
                if dev.stage == "session":
                    self.conn.abort()
                    return False
                return Session()

        async def go():
            return await asyncssh.listen(
                "127.0.0.1", 0, server_factory=Server, server_host_keys=[_key()], encoding="utf-8",
                signature_algs=["ssh-ed25519", "rsa-sha2-256", "rsa-sha2-512", "ssh-rsa"])

        self.srv = asyncio.run_coroutine_threadsafe(go(), self.loop).result(15)
        self.port = self.srv.sockets[0].getsockname()[1]

    def _run(self):
        asyncio.set_event_loop(self.loop)
        self.loop.run_forever()

    def shutdown(self):
        async def stop():
            self.srv.close()
            try:
                await asyncio.wait_for(self.srv.wait_closed(), 2)
            except Exception:  # noqa
                pass

        try:
            asyncio.run_coroutine_threadsafe(stop(), self.loop).result(5)
        except Exception:  # noqa
            pass
        self.loop.call_soon_threadsafe(self.loop.stop)
        self.thread.join(3)
