"""C19 — implementation side: the REAL Channel / AsyncChannel, N concurrent callers, one scripted wire.

run_scenario(scn, choices) runs one schedule of one scenario and returns the canonical observation:
  events   the ordered log (see c19_sched), results per caller (class name of the exception, or the
           value: prompt string / (raw, processed) as hex), verdict (None | deadlock | starved | budget),
  lock     what the channel created (None | type name), whether it is free at the end,
  choices  [(chosen, options)] per decision point (enumeration of schedules uses it).

A scenario is a JSON-able dict:
  {"stack": "sync"|"async", "lock": bool, "chunk": int, "host": str, "outputs": {cmd: text},
   "callers": [{"op": ..., ...}], "faults": [...], "timeouts": {"<c>": seconds}, "no_terminate": bool}
A caller with "retry": true whose operation fails with an exception re-opens the connection
(channel.close(), transport.open(), channel.open(): what Driver.close / Driver.open do) and runs the operation once more.
faults: raise|boom (k-th transport call of the caller raises), timeout / timeout_lockwait / timeout_stuck,
cancel / cancel_lockwait (asyncio: the caller's task is cancelled at its k-th transport call / in the lock queue).
duration (the caller's read_duration runs out while the device is silent: see c19_sched "Durations").
"busy": [cmd, ...]: commands that keep the device busy -- it prints their output and no prompt ("tail log"), and goes on
answering what is typed next.  A send_input_and_read caller with "duration": seconds reads for that long (default: for ever);
a send_inputs_interact caller with "complete": [patterns] passes them as interaction_complete_patterns.
run_scenario(..., order=[callers]) runs the callers one after the other in that order (the sequential reference run).
"commandeer": {"a_lock": bool, "b_lock": bool, "on": "A"|"B"}: a two-connection history (see _commandeered); `lock` is
the channel_lock the callers' connection was BUILT with."""
import logging
import unittest.mock

from . import c19_sched as S
from .simdevice import SimDevice

class BusyDevice(SimDevice):
    """SimDevice + commands that keep the device busy: their output is printed, the prompt is not"""

    busy = ()

    def _return(self):
        line = bytes(self.line).decode("latin-1").strip()
        if self.dialog is None and line in self.busy:
            raw, self.line = bytes(self.line), bytearray()
            out = self.outputs.get(line, b"")
            self.log.append((self.mode, raw, out))
            self.marks.append((len(self.plain), "cmd"))
            self._emit(self.nl + out.replace(b"\n", self.nl) + self.nl)
            return
        SimDevice._return(self)


PROMPT_PATTERN = r"^[a-z0-9.\-@()/:]{1,48}[#>$]\s*$"


def _channel(stack, lock, transport_factory, sched=None):
    from scrapli.channel import AsyncChannel, Channel
    from scrapli.channel.base_channel import BaseChannelArgs
    from scrapli.transport.base.base_transport import BaseTransportArgs

    bta = BaseTransportArgs(transport_options={}, host="sim", port=23, timeout_socket=0, timeout_transport=0)
    args = BaseChannelArgs(comms_prompt_pattern=PROMPT_PATTERN, comms_return_char="\n", timeout_ops=0,
                           channel_lock=lock)
    t = transport_factory(bta)
    cls = Channel if stack == "sync" else AsyncChannel
    if sched is not None:
        cls = S.instrumented_channel_class(cls, sched, S.SchedLock if stack == "sync" else S.ASchedLock)
    ch = cls(transport=t, base_channel_args=args)
    ch.open()                   # (what Driver.open does after the transport is up)
    return ch, t, args


def _lock_type(lock):
    """type name of the lock object an attribute refers to (through the instrumented wrapper)"""
    if lock is None:
        return None
    inner = getattr(lock, "inner", lock) if isinstance(lock, (S.SchedLock, S.ASchedLock)) else lock
    return type(inner).__module__ + "." + type(inner).__name__


def _commandeered(stack, scn, transport_factory, sched):
    """the two-connection history  scn["commandeer"] = {"a_lock": bool, "b_lock": bool, "on": "A"|"B"}:
    connection A (a real Driver / AsyncDriver built with channel_lock=a_lock) has the session -- the scripted
    transport is attached to it the way A.open() leaves it --, connection B (built with channel_lock=b_lock)
    takes it over with the REAL Driver.commandeer / AsyncDriver.commandeer; the callers then use connection
    `on`.  Both channels are instances of the instrumented subclass (patched into the driver module while the
    drivers are built).  Returns (channel, transport, channel args, lock object the callers' connection created)."""
    import asyncio
    spec = scn["commandeer"]
    if stack == "sync":
        import scrapli.driver.base.sync_driver as mod
        cname, dname, wrapper, tname = "Channel", "Driver", S.SchedLock, "telnet"
    else:
        import scrapli.driver.base.async_driver as mod
        cname, dname, wrapper, tname = "AsyncChannel", "AsyncDriver", S.ASchedLock, "asynctelnet"
    if not hasattr(mod, cname) or not hasattr(mod, dname):
        raise S.Wedged("%s no longer exposes %s / %s" % (mod.__name__, cname, dname))
    inst = S.instrumented_channel_class(getattr(mod, cname), sched, wrapper)
    kw = dict(host="sim", port=23, transport=tname, comms_prompt_pattern=PROMPT_PATTERN, comms_return_char="\n",
              timeout_ops=0, timeout_socket=0, timeout_transport=0)
    with unittest.mock.patch.object(mod, cname, inst):
        conn = {"B": getattr(mod, dname)(channel_lock=spec["b_lock"], **kw),
                "A": getattr(mod, dname)(channel_lock=spec["a_lock"], **kw)}
    for k in ("A", "B"):
        if not isinstance(conn[k].channel, inst):
            raise S.Wedged("the driver did not build its channel from %s.%s" % (mod.__name__, cname))
    t = transport_factory(conn["A"]._base_transport_args)
    conn["A"].transport = t
    conn["A"].channel.transport = t
    conn["A"].channel.open()
    tgt = conn[spec["on"]]
    created = tgt.channel.channel_lock
    created = created.inner if isinstance(created, wrapper) else created
    if stack == "sync":
        conn["B"].commandeer(conn["A"])
    else:
        loop = asyncio.new_event_loop()
        try:
            loop.run_until_complete(conn["B"].commandeer(conn["A"]))
        finally:
            loop.close()
    if tgt.transport is not t or tgt.channel.transport is not t:
        raise S.Wedged("after commandeer() connection %s does not drive the session's transport" % spec["on"])
    return tgt.channel, t, tgt.channel._base_channel_args, created


def _call(ch, spec):
    """the bound call for one caller (returns the call result or a coroutine)"""
    op = spec["op"]
    if op == "get_prompt":
        return ch.get_prompt()
    if op == "send_input":
        return ch.send_input(channel_input=spec["cmd"], strip_prompt=spec.get("strip", True))
    if op == "send_input_and_read":
        return ch.send_input_and_read(channel_input=spec["cmd"], expected_outputs=spec.get("expected"),
                                      read_duration=float(spec.get("duration", 100000.0)))
    if op == "send_inputs_interact":
        return ch.send_inputs_interact(interact_events=[tuple(e) for e in spec["events"]],
                                       interaction_complete_patterns=spec.get("complete"))
    raise ValueError(op)


def _canon(v):
    if isinstance(v, str):
        return ["str", v]
    if isinstance(v, tuple):
        return ["tuple"] + [x.hex() if isinstance(x, (bytes, bytearray)) else repr(x) for x in v]
    return ["repr", repr(v)]


def make_chooser(choices):
    def chooser(step, opts):
        ix = choices[chooser.k] if chooser.k < len(choices) else 0
        chooser.k += 1
        return ix if ix < len(opts) else 0
    chooser.k = 0
    return chooser


class _Multi:
    """chooser counting only real decision points (those with more than one option)"""


def run_scenario(scn, choices=(), max_steps=4000, order=None):
    from scrapli.settings import Settings
    import scrapli.decorators as deco
    import scrapli.channel.sync_channel as sync_mod
    import scrapli.channel.async_channel as async_mod

    stack = scn["stack"]
    dev = BusyDevice(platform="generic", host=scn.get("host", "router1"),
                     outputs={k: v.encode("latin-1") for k, v in scn.get("outputs", {}).items()})
    dev.busy = set(scn.get("busy", ()))
    if scn.get("silent_after") is not None:
        # the device goes silent after that many bytes of output (counted after the first prompt)
        dev.silent_after = len(dev.t["prompt"](dev, dev.mode)) + scn["silent_after"]
    wire = S.Wire(dev, scn.get("chunk", 0))
    n = len(scn["callers"])
    chooser = make_chooser(list(choices))
    if order is not None:
        def chooser(step, opts):
            # one caller after the other: the first caller of `order` that is not through makes every step
            for c in order:
                if not sched.main_done(c):
                    return ([i for i, (a, _) in enumerate(opts) if sched.owner(a) == c] or [0])[0]
            return 0
    cls = S.ThreadSched if stack == "sync" else S.TaskSched
    sched = cls(n, wire, scn.get("faults", []), chooser, max_steps=max_steps)
    mk = S.make_sync_transport if stack == "sync" else S.make_async_transport
    if scn.get("commandeer"):
        if scn["lock"] != scn["commandeer"]["%s_lock" % scn["commandeer"]["on"].lower()]:
            raise ValueError("scenario: `lock` must be the channel_lock the callers' connection was built with")
        ch, t, args, created = _commandeered(stack, scn, lambda bta: mk(sched, bta), sched)
        created_type = None if created is None else type(created).__module__ + "." + type(created).__name__
    else:
        ch, t, args = _channel(stack, scn["lock"], lambda bta: mk(sched, bta), sched)
        created = sched.lock_objects[0] if sched.lock_objects else None
        created_type = None if created is None else type(created).__module__ + "." + type(created).__name__
        if (ch.channel_lock is None) != (created is None):
            created_type = "inconsistent: channel_lock is %r" % type(ch.channel_lock).__name__
    lock_at_start = _lock_type(ch.channel_lock)      # what the callers will find
    results = {}
    timeouts = {int(k): v for k, v in scn.get("timeouts", {}).items()}

    def record(c, fn_result=None, exc=None):
        if exc is not None:
            results[c] = ["exc", type(exc).__name__]
            sched.events.append(("end", c, type(exc).__name__))
        else:
            results[c] = _canon(fn_result)
            sched.events.append(("end", c, "ok"))

    def sync_starter(c, spec):
        def go():
            args.timeout_ops = timeouts.get(c, 0)
            tries = 2 if spec.get("retry") else 1
            while True:
                tries -= 1
                try:
                    r = _call(ch, spec)
                except S.Abort:
                    raise
                except BaseException as e:  # noqa
                    if isinstance(e, S.Wedged):
                        raise
                    if tries and isinstance(e, Exception):
                        # the connection dropped under the caller: bring it back and try once more
                        sched.park(c, "reopen")
                        ch.close()              # (what Driver.close / Driver.open do for the channel)
                        sched.reopen_wire(c)
                        t.open()
                        ch.open()
                        continue
                    record(c, exc=e)
                else:
                    record(c, r)
                return
        return go

    def async_starter(c, spec):
        async def go():
            import asyncio
            args.timeout_ops = timeouts.get(c, 0)
            if args.timeout_ops:
                sched.deadline[c] = asyncio.get_running_loop().time() + args.timeout_ops
            tries = 2 if spec.get("retry") else 1
            while True:
                tries -= 1
                try:
                    r = await _call(ch, spec)
                except S.Abort:
                    raise
                except asyncio.CancelledError as e:
                    record(c, exc=e)
                    raise
                except BaseException as e:  # noqa
                    if isinstance(e, S.Wedged):
                        raise
                    if tries and isinstance(e, Exception):
                        await sched.park(c, "reopen")
                        ch.close()
                        sched.reopen_wire(c)
                        await t.open()
                        ch.open()
                        continue
                    record(c, exc=e)
                else:
                    record(c, r)
                return
        return go

    dev.start()
    wire.delivered = len(dev.out)          # the login banner / first prompt is consumed before the callers start
    saved_nt = Settings.NO_TERMINATE_ON_TIMEOUT
    Settings.NO_TERMINATE_ON_TIMEOUT = bool(scn.get("no_terminate", False))
    root = logging.getLogger("scrapli")
    saved_level, saved_prop = root.level, root.propagate
    root.setLevel(logging.CRITICAL + 10)
    wedged = None
    chan_mod = sync_mod if stack == "sync" else async_mod
    saved_time = getattr(chan_mod, "time", None)
    if saved_time is not None:
        chan_mod.time = S.SchedClock(sched)     # (the channel's time.time() is the scheduler's virtual clock)
    try:
        if stack == "sync":
            starters = [sync_starter(c, spec) for c, spec in enumerate(scn["callers"])]
            if not hasattr(deco, "wait") or not hasattr(deco, "ThreadPoolExecutor"):
                raise S.Wedged("scrapli.decorators no longer exposes wait/ThreadPoolExecutor: timeout clock cannot be replaced")
            with unittest.mock.patch.object(deco, "wait", S.patched_wait_factory(sched)):
                sched.run(starters)
        else:
            starters = [async_starter(c, spec) for c, spec in enumerate(scn["callers"])]
            sched.run(starters)
    except S.Wedged as e:
        wedged = str(e)
    finally:
        if saved_time is not None:
            chan_mod.time = saved_time
        Settings.NO_TERMINATE_ON_TIMEOUT = saved_nt
        root.setLevel(saved_level)
        root.propagate = saved_prop
    inner = created
    return {
        "events": [list(e) for e in sched.events],
        "results": {str(c): results.get(c) for c in range(n)},
        "verdict": sched.verdict,
        "wedged": wedged,
        "lock_created": created_type,
        "lock_free_at_end": (None if inner is None else (not (sched.final_lock if sched.final_lock is not None else sched.lock_probe()))),
        "lock_objects": len(sched.lock_objects),
        "lock_at_start": lock_at_start,
        "lock_at_end": _lock_type(ch.channel_lock),
        "pending_io": [list(x) for x in sched.pending_io],
        "stuck_owner": sched.final_owner,
        "choices": [list(x) for x in sched.choices],
        "residue": bytes(dev.out[wire.delivered:]).hex(),
        "device_log": [[m, l.hex(), o.hex()] for (m, l, o) in dev.log],
    }


def explore(scn, limit=None, max_steps=4000):
    """depth-first enumeration of all schedules of a scenario (stateless: one fresh run per schedule)"""
    prefix, count = [], 0
    while True:
        obs = run_scenario(scn, prefix, max_steps=max_steps)
        count += 1
        yield [c[0] for c in obs["choices"]], obs
        if limit is not None and count >= limit:
            return
        ch = obs["choices"]
        i = len(ch) - 1
        while i >= 0 and ch[i][0] + 1 >= ch[i][1]:
            i -= 1
        if i < 0:
            return
        prefix = [c[0] for c in ch[:i]] + [ch[i][0] + 1]
