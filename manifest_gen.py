#!/usr/bin/env python3
"""Regenerates MANIFEST.json from harness/manifest_entries.py (keeps it valid at all times)."""
import json, os, sys
sys.path.insert(0, os.path.dirname(os.path.abspath(__file__)))
from harness.manifest_entries import NOT_APPLICABLE, HOOK_COMMITS
import ast, glob
ENTRIES = {}
for f in sorted(glob.glob(os.path.join(os.path.dirname(os.path.abspath(__file__)), "harness", "c[0-9][0-9].py"))):
    pid = os.path.basename(f)[:-3].upper()
    # evaluate only the `MANIFEST = {...}` assignment (no import of the harness module needed)
    tree = ast.parse(open(f).read())
    for node in tree.body:
        if isinstance(node, ast.Assign) and any(isinstance(t, ast.Name) and t.id == "MANIFEST" for t in node.targets):
            ns = {}
            exec(compile(ast.Module(body=[node], type_ignores=[]), f, "exec"), ns)
            if ns.get("MANIFEST"):
                ENTRIES[pid] = ns["MANIFEST"]

ALL = ["C%02d" % i for i in range(1, 21)]
checks = []
for pid in ALL:
    if pid in ENTRIES:
        e = ENTRIES[pid]
        checks.append({
            "property_id": pid,
            "quick_cmd": "./check %s --tier quick" % pid,
            "thorough_cmd": "./check %s --tier thorough" % pid,
            "evidence_file": "/verif/evidence/%s.json" % pid,
            "replay_cmd_template": "./check %s --replay {path}" % pid,
            "engine": "coq-proof+correspondence",
            "level_claimed": {"category": e.get("category", "proof"), "text": e["text"], "design_ref": "DESIGN.md section 5." + pid},
            "level_note": e["note"],
            "technique": e["technique"],
        })
na = [{"property_id": p, "reason": NOT_APPLICABLE.get(p, "check not built yet (work in progress; see DESIGN.md section 8)")}
      for p in ALL if p not in ENTRIES]
m = {
    "version": 1,
    "setup_cmd": "./setup.sh",
    "hooks": {"guard": "SCRAPLI_VERIF", "enable": "no source hooks are used: scripted transports, fake sockets and log sinks are injected from outside through public constructors and attributes",
              "baseline_off_cmd": "cd /repo && /venv/bin/python -m pytest -ra -q -p no:cacheprovider --timeout=900 --continue-on-collection-errors",
              "source_commits": HOOK_COMMITS, "add_only": True},
    "engines": [{"name": "coq-proof+correspondence", "path": "/verif/check", "serves_properties": sorted(ENTRIES),
                 "kind_free_text": "Coq 8.16.1 theorems over Gallina models (coq/), Gen_*.v regenerated from /repo on every run (gen/), correspondence of the models against the real scrapli classes via cases.v + vm_compute (harness/)"}],
    "checks": checks,
    "notes": "Machine-checked proof in Coq 8.16.1; see DESIGN.md. known_findings.json lists fixed and known findings.",
    "not_applicable": na,
}
json.dump(m, open(os.path.join(os.path.dirname(os.path.abspath(__file__)), "MANIFEST.json"), "w"), indent=1)
print("MANIFEST.json: %d checks, %d not claimed" % (len(checks), len(na)))
